//! C09 - serialization round-trips at the advertised size; field encodings are unique.
//!
//! Oracle: a byte-level model of the format written here (little-endian integer per base-prime-field
//! coefficient in ceil(bits/8) bytes, the LAST coefficient in ceil((bits+flag_bits)/8) bytes with the
//! flag bits OR-ed into the top bits of the last byte; SW points = x [|| y] with SWFlags, TE points =
//! y with TEFlags (compressed) or x || y (uncompressed); BLS12-381 = zcash big-endian format) on
//! u64 / num-bigint integers.  The library's arithmetic is only used to build inputs.
#![allow(clippy::all)]
#![allow(dead_code)]
use algebra_mc::core::*;
use algebra_mc::refmodel::curve::{GroupTable, Pt, SwModel};
use algebra_mc::refmodel::fieldmodel::{prime_to_u64, FieldModel, Fp2Model};
use algebra_mc::refmodel::zmod::*;
use algebra_mc::toy::gen_fields::*;
use algebra_mc::toy::gen_towers::{T13Fq2, T5Fq2, T7Fq2};
use algebra_mc::toycurve::{SwToy, TeToy};
use ark_ec::short_weierstrass::{self as sw, SWCurveConfig, SWFlags};
use ark_ec::twisted_edwards::{self as te, TECurveConfig, TEFlags};
use ark_ec::CurveConfig;
use ark_ff::{BigInteger, Field, Fp2, Fp2Config, Fp3, Fp3Config, MontFp, One, PrimeField, Zero};
use ark_serialize::{
    CanonicalDeserialize, CanonicalDeserializeWithFlags, CanonicalSerialize, CanonicalSerializeWithFlags, Compress, EmptyFlags, Flags, Validate,
};
use num_bigint::BigUint;
use num_traits::{One as NOne, Zero as NZero};

// ------------------------------------------------------------------------------------------
// helpers
// ------------------------------------------------------------------------------------------
fn hex(b: &[u8]) -> String {
    let mut s = String::with_capacity(2 * b.len());
    for x in b {
        s.push_str(&format!("{x:02x}"));
    }
    s
}

/// hex, abbreviated in the middle for long strings
fn hexs(b: &[u8]) -> String {
    if b.len() <= 100 {
        hex(b)
    } else {
        format!("{}..[{} bytes]..{}", hex(&b[..8]), b.len(), hex(&b[b.len() - 40..]))
    }
}

/// reader that counts the bytes handed out
struct CountReader<'a> {
    data: &'a [u8],
    pos: usize,
}
impl<'a> CountReader<'a> {
    fn new(data: &'a [u8]) -> Self {
        CountReader { data, pos: 0 }
    }
}
impl<'a> std::io::Read for CountReader<'a> {
    fn read(&mut self, buf: &mut [u8]) -> std::io::Result<usize> {
        let n = buf.len().min(self.data.len() - self.pos);
        buf[..n].copy_from_slice(&self.data[self.pos..self.pos + n]);
        self.pos += n;
        Ok(n)
    }
}

const MODES: [(Compress, Validate); 4] = [(Compress::Yes, Validate::Yes), (Compress::Yes, Validate::No), (Compress::No, Validate::Yes), (Compress::No, Validate::No)];
fn mode_name(m: usize) -> &'static str {
    ["compressed/checked", "compressed/unchecked", "uncompressed/checked", "uncompressed/unchecked"][m]
}
const SPARE: [&str; 8] = ["spare_bits_0", "spare_bits_1", "spare_bits_2", "spare_bits_3", "spare_bits_4", "spare_bits_5", "spare_bits_6", "spare_bits_7"];

// ------------------------------------------------------------------------------------------
// flag types: the library's three and two harness-defined ones (3 bits, 8 bits)
// ------------------------------------------------------------------------------------------
#[derive(Default, Clone, Copy, PartialEq, Eq, Debug)]
struct Flag3(u8); // values 0..=6 are legal, the pattern 111 is not
impl Flags for Flag3 {
    const BIT_SIZE: usize = 3;
    fn u8_bitmask(&self) -> u8 {
        self.0 << 5
    }
    fn from_u8(v: u8) -> Option<Self> {
        if v >> 5 == 7 {
            None
        } else {
            Some(Flag3(v >> 5))
        }
    }
}
#[derive(Default, Clone, Copy, PartialEq, Eq, Debug)]
struct Flag8(u8); // every value but 0xff is legal
impl Flags for Flag8 {
    const BIT_SIZE: usize = 8;
    fn u8_bitmask(&self) -> u8 {
        self.0
    }
    fn from_u8(v: u8) -> Option<Self> {
        if v == 0xff {
            None
        } else {
            Some(Flag8(v))
        }
    }
}

/// the model's view of a flag type (independent of `u8_bitmask` / `from_u8`)
trait TestFlag: Flags + Send + Sync + 'static {
    const NAME: &'static str;
    /// number of flag bits according to the model
    const NB: usize;
    /// the flag denoted by this pattern of the top NB bits of the last byte (lower bits are zero)
    fn of_mask(m: u8) -> Option<Self>;
    /// the bits this flag contributes to the last byte
    fn mask(&self) -> u8;
    /// every pattern of the top NB bits (legal or not) used by the alphabet sweeps
    fn raw_masks() -> Vec<u8> {
        if Self::NB == 0 {
            vec![0]
        } else if Self::NB <= 3 {
            (0..(1u16 << Self::NB)).map(|k| (k << (8 - Self::NB)) as u8).collect()
        } else {
            vec![0, 1, 0x80, 0xa5, 0xfe, 0xff]
        }
    }
    fn all() -> Vec<Self> {
        let step = if Self::NB == 0 { 256 } else { 1usize << (8 - Self::NB) };
        (0..256usize).step_by(step).filter_map(|m| Self::of_mask(m as u8)).collect()
    }
}
fn topmask(nb: usize) -> u8 {
    if nb == 0 {
        0
    } else {
        (0xffu16 << (8 - nb)) as u8
    }
}
impl TestFlag for EmptyFlags {
    const NAME: &'static str = "EmptyFlags";
    const NB: usize = 0;
    fn of_mask(_: u8) -> Option<Self> {
        Some(EmptyFlags)
    }
    fn mask(&self) -> u8 {
        0
    }
}
impl TestFlag for SWFlags {
    const NAME: &'static str = "SWFlags";
    const NB: usize = 2;
    fn of_mask(m: u8) -> Option<Self> {
        match m {
            0x00 => Some(SWFlags::YIsPositive),
            0x40 => Some(SWFlags::PointAtInfinity),
            0x80 => Some(SWFlags::YIsNegative),
            _ => None,
        }
    }
    fn mask(&self) -> u8 {
        match self {
            SWFlags::YIsPositive => 0,
            SWFlags::PointAtInfinity => 0x40,
            SWFlags::YIsNegative => 0x80,
        }
    }
}
impl TestFlag for TEFlags {
    const NAME: &'static str = "TEFlags";
    const NB: usize = 1;
    fn of_mask(m: u8) -> Option<Self> {
        match m {
            0x00 => Some(TEFlags::XIsPositive),
            0x80 => Some(TEFlags::XIsNegative),
            _ => None,
        }
    }
    fn mask(&self) -> u8 {
        match self {
            TEFlags::XIsPositive => 0,
            TEFlags::XIsNegative => 0x80,
        }
    }
}
impl TestFlag for Flag3 {
    const NAME: &'static str = "Flag3";
    const NB: usize = 3;
    fn of_mask(m: u8) -> Option<Self> {
        if m & 0x1f != 0 || m >> 5 == 7 {
            None
        } else {
            Some(Flag3(m >> 5))
        }
    }
    fn mask(&self) -> u8 {
        self.0 << 5
    }
}
impl TestFlag for Flag8 {
    const NAME: &'static str = "Flag8";
    const NB: usize = 8;
    fn of_mask(m: u8) -> Option<Self> {
        if m == 0xff {
            None
        } else {
            Some(Flag8(m))
        }
    }
    fn mask(&self) -> u8 {
        self.0
    }
}

// ------------------------------------------------------------------------------------------
// toy extension fields (serialization does not use the Frobenius / sqrt constants; they are
// validated anyway)
// ------------------------------------------------------------------------------------------
macro_rules! toy_fp2 {
    ($cfg:ident, $ty:ident, $f:ty, $minus1:expr) => {
        pub struct $cfg;
        impl Fp2Config for $cfg {
            type Fp = $f;
            const NONRESIDUE: $f = MontFp!($minus1);
            const FROBENIUS_COEFF_FP2_C1: &'static [$f] = &[MontFp!("1"), MontFp!($minus1)];
        }
        pub type $ty = Fp2<$cfg>;
    };
}
toy_fp2!(F7x2Cfg, F7x2, D7, "6");
toy_fp2!(F251x2Cfg, F251x2, D251, "250");
toy_fp2!(F2039x2Cfg, F2039x2, D2039, "2038");

pub struct F7x3Cfg;
impl Fp3Config for F7x3Cfg {
    type Fp = D7;
    const NONRESIDUE: D7 = MontFp!("2");
    const TWO_ADICITY: u32 = 1;
    const TRACE_MINUS_ONE_DIV_TWO: &'static [u64] = &[85];
    const QUADRATIC_NONRESIDUE_TO_T: Fp3<Self> = Fp3::new(MontFp!("6"), MontFp!("0"), MontFp!("0"));
    const FROBENIUS_COEFF_FP3_C1: &'static [D7] = &[MontFp!("1"), MontFp!("4"), MontFp!("2")];
    const FROBENIUS_COEFF_FP3_C2: &'static [D7] = &[MontFp!("1"), MontFp!("2"), MontFp!("4")];
}
pub type F7x3 = Fp3<F7x3Cfg>;
pub struct F61x3Cfg;
impl Fp3Config for F61x3Cfg {
    type Fp = D61;
    const NONRESIDUE: D61 = MontFp!("2");
    const TWO_ADICITY: u32 = 2;
    const TRACE_MINUS_ONE_DIV_TWO: &'static [u64] = &[28372];
    const QUADRATIC_NONRESIDUE_TO_T: Fp3<Self> = Fp3::new(MontFp!("50"), MontFp!("0"), MontFp!("0"));
    const FROBENIUS_COEFF_FP3_C1: &'static [D61] = &[MontFp!("1"), MontFp!("47"), MontFp!("13")];
    const FROBENIUS_COEFF_FP3_C2: &'static [D61] = &[MontFp!("1"), MontFp!("13"), MontFp!("47")];
}
pub type F61x3 = Fp3<F61x3Cfg>;

fn powmod(mut b: u64, mut e: u64, p: u64) -> u64 {
    let mut r = 1u64;
    b %= p;
    while e > 0 {
        if e & 1 == 1 {
            r = r * b % p;
        }
        b = b * b % p;
        e >>= 1;
    }
    r
}
fn validate_toy_towers(ctx: &mut Ctx) {
    // Fp2: beta = -1 is a non-residue iff p = 3 mod 4; Frobenius coefficient beta^((p-1)/2) = -1
    for p in [7u64, 251, 2039] {
        ctx.validate(is_prime_small(p) && p % 4 == 3 && powmod(p - 1, (p - 1) / 2, p) == p - 1, &format!("toy Fp2 over F_{p}: -1 is a non-residue"));
    }
    // Fp3 over F_7 and F_61 with beta = 2
    for (p, c1, c2, s, tm1d2, qnr_t) in [(7u64, [1u64, 4, 2], [1u64, 2, 4], 1u32, 85u64, 6u64), (61, [1, 47, 13], [1, 13, 47], 2, 28372, 50)] {
        let q3 = p * p * p - 1;
        let ok_nr = p % 3 == 1 && powmod(2, (p - 1) / 3, p) != 1;
        let e1 = (p - 1) / 3;
        let e2 = (p * p - 1) / 3;
        let ok_c1 = c1 == [1, powmod(2, e1, p), powmod(2, e2 % (p - 1), p)];
        let ok_c2 = c2 == [1, powmod(2, 2 * e1, p), powmod(2, (2 * e2) % (p - 1), p)];
        let t = q3 >> s;
        let ok_t = q3 % (1 << s) == 0 && t % 2 == 1 && (t - 1) / 2 == tm1d2;
        // a quadratic non-residue of F_p stays one in the cubic extension; its t-th power lies in F_p
        let g = (2..p).find(|g| powmod(*g, (p - 1) / 2, p) == p - 1).unwrap();
        let ok_q = powmod(g, t % (p - 1), p) == qnr_t;
        ctx.validate(ok_nr && ok_c1 && ok_c2 && ok_t && ok_q, &format!("toy Fp3 over F_{p}: constants ({ok_nr} {ok_c1} {ok_c2} {ok_t} {ok_q})"));
    }
}

// ------------------------------------------------------------------------------------------
// byte-level model on u64 for toy fields F_p^d (p < 2^16, d <= 3)
// ------------------------------------------------------------------------------------------
#[derive(Clone, Copy, Debug)]
struct Small {
    p: u64,
    bits: usize,
    d: usize,
}
#[derive(Clone, Copy, Debug, PartialEq, Eq)]
enum SDec {
    Short,
    BadFlags,
    /// a bit above the modulus bit length (and below the flag bits) is set
    Stray,
    /// some coefficient is an integer in p .. 2^bits
    GeP,
    Ok([u64; 4], u8),
}
impl Small {
    fn new(p: u64, d: usize) -> Small {
        Small { p, bits: 64 - p.leading_zeros() as usize, d }
    }
    fn of<E: Field>() -> Small {
        let m = <E::BasePrimeField as PrimeField>::MODULUS;
        let l = m.as_ref();
        assert!(l[1..].iter().all(|x| *x == 0) && l[0] < 1 << 16);
        Small::new(l[0], E::extension_degree() as usize)
    }
    fn blen(&self) -> usize {
        (self.bits + 7) / 8
    }
    fn llen(&self, nb: usize) -> usize {
        (self.bits + nb + 7) / 8
    }
    fn total(&self, nb: usize) -> usize {
        (self.d - 1) * self.blen() + self.llen(nb)
    }
    fn spare(&self) -> usize {
        (8 - self.bits % 8) % 8
    }
    fn enc(&self, c: &[u64], nb: usize, mask: u8, out: &mut [u8]) -> usize {
        let mut pos = 0;
        for j in 0..self.d {
            let len = if j == self.d - 1 { self.llen(nb) } else { self.blen() };
            for k in 0..len {
                out[pos + k] = (c[j] >> (8 * k)) as u8;
            }
            pos += len;
        }
        out[pos - 1] |= mask;
        pos
    }
    fn dec<Fl: TestFlag>(&self, b: &[u8]) -> SDec {
        let nb = Fl::NB;
        let total = self.total(nb);
        if b.len() < total {
            return SDec::Short;
        }
        let fm = b[total - 1] & topmask(nb);
        if Fl::of_mask(fm).is_none() {
            return SDec::BadFlags;
        }
        let mut c = [0u64; 4];
        let mut pos = 0;
        let (mut stray, mut gep) = (false, false);
        for j in 0..self.d {
            let len = if j == self.d - 1 { self.llen(nb) } else { self.blen() };
            let mut v = 0u64;
            for k in 0..len {
                let mut byte = b[pos + k];
                if j == self.d - 1 && k == len - 1 {
                    byte &= !topmask(nb);
                }
                v |= (byte as u64) << (8 * k);
            }
            pos += len;
            if v >> self.bits != 0 {
                stray = true;
            } else if v >= self.p {
                gep = true;
            }
            c[j] = v;
        }
        if stray {
            SDec::Stray
        } else if gep {
            SDec::GeP
        } else {
            SDec::Ok(c, fm)
        }
    }
}
fn small_from<E: Field>(c: &[u64]) -> E {
    E::from_base_prime_field_elems(c.iter().map(|x| E::BasePrimeField::from(*x))).expect("degree")
}
fn small_coeffs<E: Field>(e: &E) -> [u64; 4] {
    let mut out = [0u64; 4];
    for (j, c) in e.to_base_prime_field_elements().enumerate() {
        out[j] = prime_to_u64(&c);
    }
    out
}

// ------------------------------------------------------------------------------------------
// Field elements (E): whole universe on toy fields
// ------------------------------------------------------------------------------------------
/// compare a library deserialization result with the model's verdict for the same bytes
fn judge_field<E: Field, Fl: TestFlag>(loc: &mut Loc, site: &str, name: &str, m: &Small, b: &[u8], want: &SDec, got: Result<(E, u8), ark_serialize::SerializationError>, consumed: usize) {
    let total = m.total(Fl::NB);
    match (want, got) {
        (SDec::Ok(c, fm), Ok((v, f))) => {
            let vc = small_coeffs(&v);
            loc.check_at(site, vc[..m.d] == c[..m.d] && f == *fm && consumed == total, || {
                format!("{name}/{}: bytes {} -> value {:?} flag {f:#x} consumed {consumed}; want {:?} flag {fm:#x} consumed {total}", Fl::NAME, hex(b), &vc[..m.d], &c[..m.d])
            });
        }
        (SDec::Ok(c, fm), Err(e)) => loc.fail_at(site, format!("{name}/{}: canonical encoding {} of {:?} flag {fm:#x} rejected: {e}", Fl::NAME, hex(b), &c[..m.d])),
        (w, Ok((v, f))) => {
            // uniqueness: what does the accepted value re-serialize to?
            let mut buf = [0u8; 24];
            let mut wr = &mut buf[..];
            let r = match Fl::of_mask(f) {
                Some(fl) => v.serialize_with_flags(&mut wr, fl).is_ok(),
                None => v.serialize_with_flags(&mut wr, EmptyFlags).is_ok(),
            };
            let n = 24 - wr.len();
            loc.fail_at(
                site,
                format!(
                    "{name}/{}: non-canonical bytes {} ({w:?}) accepted as value {:?} flag {f:#x}, which re-serializes (ok={r}) to {}",
                    Fl::NAME,
                    hex(b),
                    &small_coeffs(&v)[..m.d],
                    hex(&buf[..n])
                ),
            );
        }
        (_, Err(_)) => loc.op(),
    }
}

fn field_e<E: Field, Fl: TestFlag>(ctx: &mut Ctx, name: &str) {
    let m = Small::of::<E>();
    let nb = Fl::NB;
    let total = m.total(nb);
    ctx.validate(Fl::BIT_SIZE == Fl::NB, &format!("{}: model flag width", Fl::NAME));
    let flags = Fl::all();
    let nf = flags.len() as u64;
    let ne = m.p.pow(m.d as u32);
    let spill = nb > 0 && m.llen(nb) > m.blen();
    let max_full = ctx.t(3usize, 4usize);
    // (a) all elements x all flag values
    ctx.sweep(&format!("field_rt/{name}/{}", Fl::NAME), ne * nf, |i, loc| {
        let [mut ie, ifl] = unrank(i, [ne, nf]);
        let mut c = [0u64; 4];
        for j in 0..m.d {
            c[j] = ie % m.p;
            ie /= m.p;
        }
        let e: E = small_from(&c[..m.d]);
        let fl = flags[ifl as usize];
        loc.class(SPARE[m.spare()]);
        loc.class_if(spill, "flags_spill_to_extra_byte");
        loc.class_if(m.d > 1, "extension_field");
        let mut want = [0u8; 24];
        let wl = m.enc(&c[..m.d], nb, fl.mask(), &mut want);
        if loc.sampling() {
            loc.sample(format!("{name} coeffs={:?} flag={}:{:#x} model bytes={}", &c[..m.d], Fl::NAME, fl.mask(), hex(&want[..wl])));
        }
        let sz = e.serialized_size_with_flags::<Fl>();
        let mut buf = [0u8; 24];
        let mut w = &mut buf[..];
        let r = e.serialize_with_flags(&mut w, fl);
        let written = 24 - w.len();
        loc.check_at("serialize_with_flags", r.is_ok() && written == wl && buf[..written] == want[..wl] && sz == wl, || {
            format!("{name} coeffs={:?} flag={}:{:#x}: reported size {sz}, wrote {written} bytes {} (ok={}); model {} ({wl} bytes)", &c[..m.d], Fl::NAME, fl.mask(), hex(&buf[..written]), r.is_ok(), hex(&want[..wl]))
        });
        // read back from the model bytes followed by one extra byte (must not be consumed)
        want[wl] = 0xff;
        let mut rd = CountReader::new(&want[..wl + 1]);
        match E::deserialize_with_flags::<_, Fl>(&mut rd) {
            Ok((v, f)) => {
                loc.check_at("deserialize_with_flags", v == e && small_coeffs(&v) == c && f.mask() == fl.mask() && rd.pos == wl, || {
                    format!("{name} coeffs={:?} flag={}:{:#x}: bytes {} read back as {:?} flag {:#x}, consumed {}", &c[..m.d], Fl::NAME, fl.mask(), hex(&want[..wl]), &small_coeffs(&v)[..m.d], f.mask(), rd.pos)
                });
            }
            Err(er) => loc.fail_at("deserialize_with_flags", format!("{name} coeffs={:?} flag={}:{:#x}: own encoding {} rejected: {er}", &c[..m.d], Fl::NAME, fl.mask(), hex(&want[..wl]))),
        }
        if nb == 0 {
            // plain CanonicalSerialize / CanonicalDeserialize in the 4 modes
            for (mi, (cm, vm)) in MODES.iter().enumerate() {
                let mut buf = [0u8; 24];
                let mut w = &mut buf[..];
                let r = e.serialize_with_mode(&mut w, *cm);
                let written = 24 - w.len();
                let sz = e.serialized_size(*cm);
                let sz2 = if *cm == Compress::Yes { e.compressed_size() } else { e.uncompressed_size() };
                loc.check_at("serialize_with_mode", r.is_ok() && written == wl && buf[..written] == want[..wl] && sz == wl && sz2 == wl, || {
                    format!("{name} coeffs={:?} {}: size {sz}/{sz2}, wrote {} ; model {}", &c[..m.d], mode_name(mi), hex(&buf[..written]), hex(&want[..wl]))
                });
                let mut rd = CountReader::new(&want[..wl + 1]);
                let got = E::deserialize_with_mode(&mut rd, *cm, *vm);
                loc.check_at("deserialize_with_mode", matches!(got, Ok(v) if v == e) && rd.pos == wl, || {
                    format!("{name} coeffs={:?} {}: bytes {} read back as {:?}, consumed {}", &c[..m.d], mode_name(mi), hex(&want[..wl]), got.as_ref().map(|v| small_coeffs(v)).map_err(|e| e.to_string()), rd.pos)
                });
            }
            let mut v1 = Vec::new();
            let mut v2 = Vec::new();
            let ok = e.serialize_compressed(&mut v1).is_ok() && e.serialize_uncompressed(&mut v2).is_ok();
            let back = [
                E::deserialize_compressed(&v1[..]).ok(),
                E::deserialize_compressed_unchecked(&v1[..]).ok(),
                E::deserialize_uncompressed(&v2[..]).ok(),
                E::deserialize_uncompressed_unchecked(&v2[..]).ok(),
            ];
            loc.check_at("convenience_methods", ok && v1[..] == want[..wl] && v2[..] == want[..wl] && back.iter().all(|b| *b == Some(e)), || {
                format!("{name} coeffs={:?}: serialize_compressed/uncompressed + deserialize_* disagree with the model bytes {}", &c[..m.d], hex(&want[..wl]))
            });
        }
    });
    // (b) every byte string of the encoding length
    if total <= max_full {
        ctx.sweep(&format!("field_bytes/{name}/{}", Fl::NAME), 1u64 << (8 * total), |i, loc| {
            let bytes = i.to_le_bytes();
            let b = &bytes[..total];
            let want = m.dec::<Fl>(b);
            match want {
                SDec::BadFlags => loc.class("illegal_flag_pattern_rejected"),
                SDec::Stray => loc.class("stray_flag_bit_rejected"),
                SDec::GeP => loc.class("bytes_int>=p_rejected"),
                SDec::Ok(..) => loc.class("canonical_bytes"),
                SDec::Short => unreachable!(),
            }
            loc.class_if(spill, "flags_spill_to_extra_byte");
            if loc.sampling() {
                loc.sample(format!("{name}/{} bytes={} model verdict {want:?}", Fl::NAME, hex(b)));
            }
            let mut rd = CountReader::new(b);
            let got = E::deserialize_with_flags::<_, Fl>(&mut rd).map(|(v, f)| (v, f.mask()));
            // the property's own wording: Ok(v, f) must re-serialize to the input
            if let Ok((v, f)) = &got {
                if let Some(fl) = Fl::of_mask(*f) {
                    let mut buf = [0u8; 24];
                    let mut w = &mut buf[..];
                    let r = v.serialize_with_flags(&mut w, fl);
                    let n = 24 - w.len();
                    loc.check_at("bytes/reserialize_identical", r.is_ok() && buf[..n] == *b, || {
                        format!("{name}/{}: bytes {} (model: {want:?}) deserialize to {:?} flag {f:#x} which re-serializes to {}", Fl::NAME, hex(b), &small_coeffs(v)[..m.d], hex(&buf[..n]))
                    });
                }
            }
            let pos = rd.pos;
            judge_field::<E, Fl>(loc, "bytes/deserialize_with_flags", name, &m, b, &want, got, pos);
            if nb == 0 {
                for (cm, vm) in MODES.iter() {
                    let mut rd = CountReader::new(b);
                    let got = E::deserialize_with_mode(&mut rd, *cm, *vm).map(|v| (v, 0u8));
                    let pos = rd.pos;
                    judge_field::<E, Fl>(loc, "bytes/deserialize_with_mode", name, &m, b, &want, got, pos);
                }
            }
        });
    } else {
        ctx.bound(&format!("field_bytes/{name}/{}", Fl::NAME), format!("not enumerated in this tier ({total}-byte encoding)"));
    }
    // (c) every shorter byte string
    let short_max = (total - 1).min(ctx.t(2, 3));
    let n_short: u64 = (0..=short_max).map(|l| 1u64 << (8 * l)).sum();
    ctx.sweep(&format!("field_short/{name}/{}", Fl::NAME), n_short, |i, loc| {
        let mut len = 0usize;
        let mut r = i;
        while r >= 1u64 << (8 * len) {
            r -= 1u64 << (8 * len);
            len += 1;
        }
        let bytes = r.to_le_bytes();
        let b = &bytes[..len];
        loc.class("short_input");
        let mut rd = CountReader::new(b);
        let got = E::deserialize_with_flags::<_, Fl>(&mut rd);
        loc.check_at("short/deserialize_with_flags", got.is_err(), || format!("{name}/{}: {len}-byte input {} accepted (encoding length {total})", Fl::NAME, hex(b)));
        if nb == 0 {
            for (cm, vm) in MODES.iter() {
                let got = E::deserialize_with_mode(&mut CountReader::new(b), *cm, *vm);
                loc.check_at("short/deserialize_with_mode", got.is_err(), || format!("{name}: {len}-byte input {} accepted (encoding length {total})", hex(b)));
            }
        }
    });
}
fn field_e_all<E: Field>(ctx: &mut Ctx, name: &str) {
    field_e::<E, EmptyFlags>(ctx, name);
    field_e::<E, TEFlags>(ctx, name);
    field_e::<E, SWFlags>(ctx, name);
    field_e::<E, Flag3>(ctx, name);
    field_e::<E, Flag8>(ctx, name);
}

// ------------------------------------------------------------------------------------------
// byte-level model on num-bigint for shipped fields / towers
// ------------------------------------------------------------------------------------------
#[derive(Clone, Debug)]
struct Big {
    p: BigUint,
    bits: usize,
    d: usize,
}
#[derive(Clone, Debug, PartialEq, Eq)]
enum BDec {
    Short,
    BadFlags,
    Stray,
    GeP,
    Ok(Vec<BigUint>, u8),
}
impl Big {
    fn of<E: Field>() -> Big {
        let p = from_limbs(<E::BasePrimeField as PrimeField>::MODULUS.as_ref());
        let bits = p.bits() as usize;
        Big { p, bits, d: E::extension_degree() as usize }
    }
    fn blen(&self) -> usize {
        (self.bits + 7) / 8
    }
    fn llen(&self, nb: usize) -> usize {
        (self.bits + nb + 7) / 8
    }
    fn total(&self, nb: usize) -> usize {
        (self.d - 1) * self.blen() + self.llen(nb)
    }
    fn spare(&self) -> usize {
        (8 - self.bits % 8) % 8
    }
    fn slot_len(&self, j: usize, nb: usize) -> usize {
        if j == self.d - 1 {
            self.llen(nb)
        } else {
            self.blen()
        }
    }
    /// little-endian slots; `mask` is OR-ed into the very last byte
    fn enc(&self, ints: &[BigUint], nb: usize, mask: u8) -> Vec<u8> {
        assert_eq!(ints.len(), self.d);
        let mut out = Vec::with_capacity(self.total(nb));
        for (j, v) in ints.iter().enumerate() {
            let len = self.slot_len(j, nb);
            let mut b = v.to_bytes_le();
            assert!(b.len() <= len || v.is_zero(), "model: integer does not fit its slot");
            b.resize(len, 0);
            out.extend_from_slice(&b);
        }
        *out.last_mut().unwrap() |= mask;
        out
    }
    fn dec<Fl: TestFlag>(&self, b: &[u8]) -> BDec {
        let nb = Fl::NB;
        let total = self.total(nb);
        if b.len() < total {
            return BDec::Short;
        }
        let fm = b[total - 1] & topmask(nb);
        if Fl::of_mask(fm).is_none() {
            return BDec::BadFlags;
        }
        let mut ints = Vec::with_capacity(self.d);
        let mut pos = 0;
        let (mut stray, mut gep) = (false, false);
        for j in 0..self.d {
            let len = self.slot_len(j, nb);
            let mut s = b[pos..pos + len].to_vec();
            if j == self.d - 1 {
                s[len - 1] &= !topmask(nb);
            }
            pos += len;
            let v = BigUint::from_bytes_le(&s);
            if v.bits() as usize > self.bits {
                stray = true;
            } else if v >= self.p {
                gep = true;
            }
            ints.push(v);
        }
        if stray {
            BDec::Stray
        } else if gep {
            BDec::GeP
        } else {
            BDec::Ok(ints, fm)
        }
    }
}
fn coeffs<E: Field>(e: &E) -> Vec<BigUint> {
    e.to_base_prime_field_elements().map(|c| from_limbs(c.into_bigint().as_ref())).collect()
}
fn from_coeffs<E: Field>(c: &[BigUint]) -> E {
    E::from_base_prime_field_elems(c.iter().map(|x| E::BasePrimeField::from(x.clone()))).expect("degree")
}
fn show(c: &[BigUint]) -> String {
    let v: Vec<String> = c.iter().map(|x| format!("{x:#x}")).collect();
    format!("[{}]", v.join(","))
}

// ------------------------------------------------------------------------------------------
// Field elements (A): boundary alphabet on shipped prime fields and towers
// ------------------------------------------------------------------------------------------
fn slot_alphabet(m: &Big, len: usize) -> Vec<BigUint> {
    let p = &m.p;
    let one = BigUint::one();
    let cap = pow2(8 * len);
    let generic = {
        let mut g = BigUint::zero();
        for _ in 0..(len + 7) / 8 {
            g = (g << 64) + BigUint::from(GENERIC64);
        }
        g % p
    };
    let mut v = vec![
        BigUint::zero(),
        one.clone(),
        BigUint::from(2u32),
        p - 1u32,
        p - 2u32,
        p.clone(),
        p + 1u32,
        (p - 1u32) / 2u32,
        (p + 1u32) / 2u32,
        generic,
        pow2(m.bits) - 1u32,
        &cap - 1u32,
    ];
    // every single unused high bit, alone and on top of p - 1
    for k in m.bits..8 * len {
        v.push(pow2(k));
        v.push(pow2(k) + (p - 1u32));
    }
    v.extend(middle_limb_values(m));
    v.retain(|x| *x < cap);
    dedup_sorted(v)
}
/// multi-limb moduli: integers that agree with p in every 64-bit limb but ONE non-lowest limb, which is p's limb +1 / -1
/// (no carry), 0 or 2^64-1: non-canonical integers just above p in a middle (or the top) limb must be refused, the ones
/// just below p accepted - a limb-wise comparison that looks at the top and bottom limbs only would get them wrong
fn middle_limb_values(m: &Big) -> Vec<BigUint> {
    let limbs: Vec<u64> = m.p.to_u64_digits();
    let mut v = Vec::new();
    for j in 1..limbs.len() {
        for repl in [limbs[j].wrapping_add(1), limbs[j].wrapping_sub(1), 0, u64::MAX] {
            if repl != limbs[j] {
                let mut l = limbs.clone();
                l[j] = repl;
                v.push(from_limbs(&l));
            }
        }
    }
    v
}

fn field_a<E: Field, Fl: TestFlag>(ctx: &mut Ctx, name: &str) {
    let m = Big::of::<E>();
    let nb = Fl::NB;
    let total = m.total(nb);
    let spill = nb > 0 && m.llen(nb) > m.blen();
    // inputs: base vector with at most one coordinate replaced, x every raw flag pattern
    let bases: Vec<BigUint> = if m.d == 1 { vec![BigUint::zero()] } else { vec![BigUint::zero(), BigUint::one(), &m.p - 1u32] };
    let mut inputs: Vec<Vec<u8>> = Vec::new();
    for b in &bases {
        for pos in 0..m.d {
            for a in slot_alphabet(&m, m.slot_len(pos, nb)) {
                let mut ints = vec![b.clone(); m.d];
                ints[pos] = a;
                for mask in Fl::raw_masks() {
                    inputs.push(m.enc(&ints, nb, mask));
                }
            }
        }
    }
    let inputs = dedup_sorted(inputs);
    // inputs whose replaced coefficient differs from p in one non-lowest limb only (legal flag patterns)
    let mut limb_tagged: std::collections::BTreeSet<Vec<u8>> = std::collections::BTreeSet::new();
    for b in &bases {
        for pos in 0..m.d {
            for a in middle_limb_values(&m) {
                if a < pow2(8 * m.slot_len(pos, nb)) {
                    let mut ints = vec![b.clone(); m.d];
                    ints[pos] = a;
                    for fl in Fl::all() {
                        limb_tagged.insert(m.enc(&ints, nb, fl.mask()));
                    }
                }
            }
        }
    }
    // the serialized form is longer than the 8 N bytes of the N-limb integer: the flags live in a byte of their own
    // beyond the limbs (Fp::serialize_with_flags / const_helpers SerBuffer "extra byte" path)
    let n_limbs = <<E::BasePrimeField as PrimeField>::BigInt as BigInteger>::NUM_LIMBS;
    let beyond_limbs = nb > 0 && m.bits + nb > 64 * n_limbs;
    ctx.sweep(&format!("field_alpha/{name}/{}", Fl::NAME), inputs.len() as u64, |i, loc| {
        let b = &inputs[i as usize];
        let want = m.dec::<Fl>(b);
        loc.class(SPARE[m.spare()]);
        loc.class_if(spill, "flags_spill_to_extra_byte");
        loc.class_if(beyond_limbs && n_limbs >= 2, "flags_spill_to_extra_byte(multi_limb)");
        loc.class_if(beyond_limbs && n_limbs == 1, "flags_spill_to_extra_byte(single_limb)");
        if limb_tagged.contains(b) {
            match &want {
                BDec::Ok(..) => loc.class("int_differs_from_p_in_one_upper_limb(<p,accepted)"),
                _ => loc.class("int_differs_from_p_in_one_upper_limb(>=p,rejected)"),
            }
        }
        loc.class_if(m.d > 1, "extension_field");
        match &want {
            BDec::BadFlags => loc.class("illegal_flag_pattern_rejected"),
            BDec::Stray => loc.class("stray_flag_bit_rejected"),
            BDec::GeP => loc.class("bytes_int>=p_rejected"),
            BDec::Ok(..) => loc.class("canonical_bytes"),
            BDec::Short => unreachable!(),
        }
        if loc.sampling() {
            loc.sample(format!("{name}/{} bytes={} model verdict {}", Fl::NAME, hexs(b), match &want { BDec::Ok(c, f) => format!("Ok({}, flag {f:#x})", show(c)), w => format!("{w:?}") }));
        }
        let judge = |loc: &mut Loc, site: &str, got: Result<(E, u8), String>, consumed: usize| match (&want, got) {
            (BDec::Ok(c, fm), Ok((v, f))) => {
                loc.check_at(site, coeffs(&v) == *c && v == from_coeffs::<E>(c) && f == *fm && consumed == total, || {
                    format!("{name}/{}: bytes {} -> {} flag {f:#x} consumed {consumed}; want {} flag {fm:#x} consumed {total}", Fl::NAME, hexs(b), show(&coeffs(&v)), show(c))
                });
            }
            (BDec::Ok(c, fm), Err(e)) => loc.fail_at(site, format!("{name}/{}: canonical encoding {} of {} flag {fm:#x} rejected: {e}", Fl::NAME, hexs(b), show(c))),
            (w, Ok((v, f))) => {
                let mut out = Vec::new();
                let r = match Fl::of_mask(f) {
                    Some(fl) => v.serialize_with_flags(&mut out, fl).is_ok(),
                    None => false,
                };
                let wn = match w { BDec::Stray => "stray bit above the modulus bit length", BDec::GeP => "integer >= p", BDec::BadFlags => "illegal flag pattern", _ => "?" };
                loc.fail_at(site, format!("{name}/{}: non-canonical bytes {} ({wn}) accepted as {} flag {f:#x}; re-serializes (ok={r}) to {}", Fl::NAME, hexs(b), show(&coeffs(&v)), hexs(&out)));
            }
            (_, Err(_)) => loc.op(),
        };
        let mut ext = b.clone();
        ext.push(0xff);
        let mut rd = CountReader::new(&ext);
        let got = E::deserialize_with_flags::<_, Fl>(&mut rd).map(|(v, f)| (v, f.mask())).map_err(|e| e.to_string());
        if let Ok((v, f)) = &got {
            if let Some(fl) = Fl::of_mask(*f) {
                let mut out = Vec::new();
                let r = v.serialize_with_flags(&mut out, fl);
                loc.check_at("alpha/reserialize_identical", r.is_ok() && out == *b, || {
                    let wn = match &want { BDec::Stray => "stray bit above the modulus bit length", BDec::GeP => "integer >= p", BDec::BadFlags => "illegal flag pattern", _ => "canonical" };
                    format!("{name}/{}: bytes {} (model: {wn}) deserialize to {} flag {f:#x} which re-serializes to {}", Fl::NAME, hexs(b), show(&coeffs(v)), hexs(&out))
                });
            }
        }
        let pos = rd.pos;
        judge(loc, "alpha/deserialize_with_flags", got, pos);
        if nb == 0 {
            for (cm, vm) in MODES.iter() {
                let mut rd = CountReader::new(&ext);
                let got = E::deserialize_with_mode(&mut rd, *cm, *vm).map(|v| (v, 0u8)).map_err(|e| e.to_string());
                let pos = rd.pos;
                judge(loc, "alpha/deserialize_with_mode", got, pos);
            }
        }
        // serialization direction for canonical inputs
        if let BDec::Ok(c, fm) = &want {
            let e: E = from_coeffs(c);
            let fl = Fl::of_mask(*fm).unwrap();
            let mut out = Vec::new();
            let r = e.serialize_with_flags(&mut out, fl);
            let sz = e.serialized_size_with_flags::<Fl>();
            loc.check_at("alpha/serialize_with_flags", r.is_ok() && out == *b && sz == total, || format!("{name}/{}: {} flag {fm:#x}: size {sz}, wrote {}; model {}", Fl::NAME, show(c), hexs(&out), hexs(b)));
            if nb == 0 {
                for cm in [Compress::Yes, Compress::No] {
                    let mut out = Vec::new();
                    let r = e.serialize_with_mode(&mut out, cm);
                    let sz = e.serialized_size(cm);
                    loc.check_at("alpha/serialize_with_mode", r.is_ok() && out == *b && sz == total, || format!("{name}: {}: size {sz}, wrote {}; model {}", show(c), hexs(&out), hexs(b)));
                }
            }
        }
    });
    // truncations of the encoding of (p-1, .., p-1) with every legal flag
    let flags = Fl::all();
    let nf = flags.len().min(4) as u64;
    ctx.sweep(&format!("field_alpha_short/{name}/{}", Fl::NAME), nf * total as u64, |i, loc| {
        let [ifl, len] = unrank(i, [nf, total as u64]);
        let fl = flags[(ifl as usize * flags.len()) / nf as usize];
        let full = m.enc(&vec![&m.p - 1u32; m.d], nb, fl.mask());
        let b = &full[..len as usize];
        loc.class("short_input");
        let got = E::deserialize_with_flags::<_, Fl>(&mut CountReader::new(b));
        loc.check_at("alpha_short/deserialize_with_flags", got.is_err(), || format!("{name}/{}: {len}-byte prefix of a {total}-byte encoding accepted", Fl::NAME));
        if nb == 0 {
            for (cm, vm) in MODES.iter() {
                let got = E::deserialize_with_mode(&mut CountReader::new(b), *cm, *vm);
                loc.check_at("alpha_short/deserialize_with_mode", got.is_err(), || format!("{name}: {len}-byte prefix of a {total}-byte encoding accepted"));
            }
        }
    });
}
fn field_a_all<E: Field>(ctx: &mut Ctx, name: &str) {
    field_a::<E, EmptyFlags>(ctx, name);
    field_a::<E, TEFlags>(ctx, name);
    field_a::<E, SWFlags>(ctx, name);
    field_a::<E, Flag3>(ctx, name);
    field_a::<E, Flag8>(ctx, name);
}
macro_rules! shipped_field {
    ($F:ty, $name:expr, $ctx:expr, $seen:expr) => {{
        let p = from_limbs(<$F as PrimeField>::MODULUS.as_ref());
        if $seen.insert(p) {
            field_a_all::<$F>($ctx, $name);
        }
    }};
}

// ------------------------------------------------------------------------------------------
// Points (E): every point of every toy curve
// ------------------------------------------------------------------------------------------
/// model bytes of a short Weierstrass point over a toy prime field (None = identity)
fn sw_small_bytes(m: &Small, pt: Option<(u64, u64)>, compress: bool, out: &mut [u8]) -> usize {
    let (x, y, mask) = match pt {
        None => (0, 0, 0x40u8),
        // documented sign rule: the flag says "y is the larger of {y, -y}" (y > -y as integers)
        Some((x, y)) => (x, y, if y > (m.p - y) % m.p { 0x80 } else { 0 }),
    };
    if compress {
        m.enc(&[x], 2, mask, out)
    } else {
        let n = m.enc(&[x], 0, 0, out);
        n + m.enc(&[y], 2, mask, &mut out[n..])
    }
}
fn te_small_bytes(m: &Small, (x, y): (u64, u64), compress: bool, out: &mut [u8]) -> usize {
    if compress {
        m.enc(&[y], 1, if x > (m.p - x) % m.p { 0x80 } else { 0 }, out)
    } else {
        let n = m.enc(&[x], 0, 0, out);
        n + m.enc(&[y], 0, 0, &mut out[n..])
    }
}

/// env VERIF_EXTRAS=1: also judge the byte-for-byte format of POINT encodings against the model (site `format_pin`)
fn extras() -> bool {
    static E: std::sync::OnceLock<bool> = std::sync::OnceLock::new();
    *E.get_or_init(|| std::env::var("VERIF_EXTRAS").map(|v| v == "1").unwrap_or(false))
}
/// serialize `v` in the given mode: the size reported beforehand must equal the number of bytes written (judged).
/// The bytes themselves are compared with the model's encoding `want` too, but for POINTS the property only states
/// round trip + size (uniqueness / exact format is claimed for field encodings): a difference is recorded as a class
/// and judged - under the separate site `format_pin` - only when VERIF_EXTRAS=1.  Returns the bytes written; the
/// round trip is then taken from THESE bytes.
fn check_ser<T: CanonicalSerialize>(loc: &mut Loc, site: &str, what: &dyn Fn() -> String, v: &T, cm: Compress, want: &[u8]) -> Vec<u8> {
    let mut buf = Vec::with_capacity(want.len() + 8);
    let r = v.serialize_with_mode(&mut buf, cm);
    let sz = v.serialized_size(cm);
    let sz2 = if cm == Compress::Yes { v.compressed_size() } else { v.uncompressed_size() };
    loc.check_at(site, r.is_ok() && sz == buf.len() && sz2 == buf.len(), || format!("{}: serialized_size {sz} (convenience {sz2}), wrote {} bytes {} (ok={})", what(), buf.len(), hexs(&buf), r.is_ok()));
    if buf == want {
        loc.class("observed:point_bytes_identical_to_format_model");
    } else {
        loc.class("observed:point_bytes_differ_from_format_model");
        if extras() {
            loc.fail_at("format_pin", format!("{}: wrote {} bytes {}; format model {} ({} bytes)", what(), buf.len(), hexs(&buf), hexs(want), want.len()));
        }
    }
    buf
}
/// a curve point OUTSIDE the prime-order subgroup offered to a checked mode: that it is refused is C10's claim; here
/// (round trip) either outcome is accepted - an error, or exactly the point that was serialized - and recorded
fn observe_checked_outside(loc: &mut Loc, rejected_a: bool, rejected_p: bool) {
    loc.class_if(rejected_a && rejected_p, "observed:checked_mode_rejects_point_outside_subgroup");
    loc.class_if(!(rejected_a && rejected_p), "observed:checked_mode_accepts_point_outside_subgroup");
}

fn sw_toy_points<P: SWCurveConfig>(ctx: &mut Ctx, name: &str)
where
    P::BaseField: PrimeField,
    P::ScalarField: PrimeField,
{
    let t = SwToy::<P>::new(name);
    t.validate(ctx);
    let m = Small::new(t.p, 1);
    let n = t.n() as u64;
    // variants 0..6 fixed; then every z in 1..p (all Jacobian scalings) on the small curves
    let nv: u64 = 6 + if t.p <= ctx.t(130, 1100) { t.p - 1 } else { 0 };
    let (gx, gy) = match t.g.pts[t.gen] {
        Pt::A(x, y) => (x, y),
        Pt::O => unreachable!(),
    };
    ctx.sweep(&format!("points_toy/{name}"), n * nv * 4, |i, loc| {
        let [ip, var, mode] = unrank(i, [n, nv, 4]);
        let ip = ip as usize;
        let (cm, vm) = MODES[mode as usize];
        let compress = cm == Compress::Yes;
        let pt = match t.g.pts[ip] {
            Pt::O => None,
            Pt::A(x, y) => Some((x, y)),
        };
        let in_sub = t.in_subgroup[ip];
        // representation
        let (aff, proj): (Option<sw::Affine<P>>, Option<sw::Projective<P>>) = match (pt, var) {
            (None, 0) => (Some(sw::Affine::identity()), None),
            (None, 1) => (Some(sw::Affine { x: t.fe(5 % t.p), y: t.fe(7 % t.p), infinity: true }), None),
            (None, 2) => (None, Some(t.proj(ip, 1))),
            (None, 3) => (None, Some(t.proj_identity_junk(0, 0))),
            (None, 4) => (None, Some(t.proj_identity_junk(gx, gy))),
            (None, 5) => (None, Some(t.proj_identity_junk(5 % t.p, 7 % t.p))),
            (None, v) => (None, Some(t.proj_identity_junk(v % t.p, (3 * v + 1) % t.p))),
            (Some(_), 0) => (Some(t.aff(ip)), None),
            (Some(_), 1) => (None, Some(t.proj(ip, 1))),
            (Some(_), 2) => (None, Some(t.proj(ip, 2))),
            (Some(_), 3) => (None, Some(t.proj(ip, t.p - 1))),
            (Some(_), 4) => (None, Some(t.proj(ip, 3))),
            (Some(_), 5) => (None, Some(t.proj(ip, 1 + (ip as u64 * 7 + 5) % (t.p - 1)))),
            (Some(_), v) => (None, Some(t.proj(ip, v - 5))),
        };
        loc.class_if(pt.is_none(), "identity");
        loc.class_if(pt.is_none() && (var == 1 || var >= 3), "identity_junk_coordinates");
        loc.class_if(matches!(pt, Some((_, 0))), "y=0_tie");
        loc.class_if(matches!(pt, Some((_, y)) if y != 0 && y > t.p - y), "y>-y");
        loc.class_if(matches!(pt, Some((_, y)) if y != 0 && y < t.p - y), "y<-y");
        loc.class_if(pt.is_some() && var >= 2, "proj_z!=1");
        loc.class_if(!in_sub, "point_outside_subgroup");
        loc.class_if(m.llen(2) > m.blen(), "flags_spill_to_extra_byte");
        let mut want = [0u8; 24];
        let wl = sw_small_bytes(&m, pt, compress, &mut want);
        let want = &want[..wl];
        let what = || format!("{name} point #{ip} {pt:?} variant {var} {}", mode_name(mode as usize));
        if loc.sampling() {
            loc.sample(format!("{} model bytes {}", what(), hex(want)));
        }
        let written = match (&aff, &proj) {
            (Some(a), _) => check_ser(loc, "sw_affine/serialize", &what, a, cm, want),
            (_, Some(p)) => check_ser(loc, "sw_projective/serialize", &what, p, cm, want),
            _ => unreachable!(),
        };
        // read back what was written (with one trailing byte that must stay unread)
        let wl = written.len();
        let mut ext = written.clone();
        ext.push(0xa5);
        let expect_ok = vm == Validate::No || in_sub;
        let mut rd = CountReader::new(&ext);
        let ga = sw::Affine::<P>::deserialize_with_mode(&mut rd, cm, vm);
        let pos_a = rd.pos;
        let mut rd = CountReader::new(&ext);
        let gp = sw::Projective::<P>::deserialize_with_mode(&mut rd, cm, vm);
        let pos_p = rd.pos;
        if !expect_ok {
            observe_checked_outside(loc, ga.is_err(), gp.is_err());
        }
        if expect_ok || ga.is_ok() {
            let ia = ga.as_ref().ok().and_then(|a| t.idx_aff(a));
            let exact = match (&ga, pt) {
                (Ok(a), None) => a.infinity,
                (Ok(a), Some((x, y))) => !a.infinity && prime_to_u64(&a.x) == x && prime_to_u64(&a.y) == y,
                _ => false,
            };
            loc.check_at("sw_affine/deserialize", ia == Some(ip) && exact && pos_a == wl, || {
                format!("{}: bytes {} read back as {:?} (oracle index {ia:?}), consumed {pos_a}", what(), hex(&written), ga.as_ref().map_err(|e| e.to_string()))
            });
        }
        if expect_ok || gp.is_ok() {
            let ipj = gp.as_ref().ok().and_then(|p| t.idx_proj(p));
            loc.check_at("sw_projective/deserialize", ipj == Some(ip) && pos_p == wl, || {
                format!("{}: bytes {} read back as {:?} (oracle index {ipj:?}), consumed {pos_p}", what(), hex(&written), gp.as_ref().map_err(|e| e.to_string()))
            });
        }
    });
}

fn te_toy_points<P: TECurveConfig>(ctx: &mut Ctx, name: &str)
where
    P::BaseField: PrimeField,
    P::ScalarField: PrimeField,
{
    let t = TeToy::<P>::new(name);
    t.validate(ctx);
    if !t.complete {
        ctx.assume(&format!("{name}: incomplete twisted Edwards parameters - checked modes are only judged on the prime-order subgroup"));
    }
    let m = Small::new(t.p, 1);
    let n = t.n() as u64;
    let nv: u64 = 5 + if t.p <= ctx.t(130, 1100) { t.p - 1 } else { 0 };
    ctx.sweep(&format!("points_toy/{name}"), n * nv * 4, |i, loc| {
        let [ip, var, mode] = unrank(i, [n, nv, 4]);
        let ip = ip as usize;
        let (cm, vm) = MODES[mode as usize];
        let (x, y) = t.xy(ip);
        let in_sub = t.in_subgroup[ip];
        let (aff, proj): (Option<te::Affine<P>>, Option<te::Projective<P>>) = match var {
            0 => (Some(t.aff(ip)), None),
            1 => (None, Some(t.proj(ip, 1))),
            2 => (None, Some(t.proj(ip, 2))),
            3 => (None, Some(t.proj(ip, t.p - 1))),
            4 => (None, Some(t.proj(ip, 1 + (ip as u64 * 7 + 5) % (t.p - 1)))),
            v => (None, Some(t.proj(ip, v - 4))),
        };
        loc.class_if(ip == t.g.id, "identity");
        loc.class_if(x == 0, "x=0_tie");
        loc.class_if(x != 0 && x > t.p - x, "x>-x");
        loc.class_if(x != 0 && x < t.p - x, "x<-x");
        loc.class_if(var >= 2, "proj_z!=1");
        loc.class_if(!in_sub, "point_outside_subgroup");
        let mut want = [0u8; 24];
        let wl = te_small_bytes(&m, (x, y), cm == Compress::Yes, &mut want);
        let want = &want[..wl];
        let what = || format!("{name} point #{ip} ({x},{y}) variant {var} {}", mode_name(mode as usize));
        if loc.sampling() {
            loc.sample(format!("{} model bytes {}", what(), hex(want)));
        }
        let written = match (&aff, &proj) {
            (Some(a), _) => check_ser(loc, "te_affine/serialize", &what, a, cm, want),
            (_, Some(p)) => check_ser(loc, "te_projective/serialize", &what, p, cm, want),
            _ => unreachable!(),
        };
        let wl = written.len();
        let mut ext = written.clone();
        ext.push(0xa5);
        let expect_ok = vm == Validate::No || in_sub;
        let mut rd = CountReader::new(&ext);
        let ga = te::Affine::<P>::deserialize_with_mode(&mut rd, cm, vm);
        let pos_a = rd.pos;
        let mut rd = CountReader::new(&ext);
        let gp = te::Projective::<P>::deserialize_with_mode(&mut rd, cm, vm);
        let pos_p = rd.pos;
        if !expect_ok {
            observe_checked_outside(loc, ga.is_err(), gp.is_err());
        }
        if expect_ok || ga.is_ok() {
            let ia = ga.as_ref().ok().and_then(|a| t.idx_aff(a));
            loc.check_at("te_affine/deserialize", ia == Some(ip) && pos_a == wl, || {
                format!("{}: bytes {} read back as {:?} (oracle index {ia:?}), consumed {pos_a}", what(), hex(&written), ga.as_ref().map_err(|e| e.to_string()))
            });
        }
        if expect_ok || gp.is_ok() {
            let ipj = gp.as_ref().ok().and_then(|p| t.idx_proj(p));
            loc.check_at("te_projective/deserialize", ipj == Some(ip) && pos_p == wl, || {
                format!("{}: bytes {} read back as {:?} (oracle index {ipj:?}), consumed {pos_p}", what(), hex(&written), gp.as_ref().map_err(|e| e.to_string()))
            });
        }
    });
}
// ------------------------------------------------------------------------------------------
// Points (E2): every point of toy short-Weierstrass curves over toy quadratic extension fields
// F_p[u]/(u^2 - beta) (same curves and self-validation as c10.rs).  Format model read off
// ff/src/fields/models/quadratic_extension.rs: c0 without flag bits, then c1 carrying the flag
// bits in the top bits of its last byte; sign flag = "y is the larger of {y, -y}" in the order of
// QuadExtField::cmp (c1 first, then c0).
// ------------------------------------------------------------------------------------------
macro_rules! ext_sw {
    ($name:ident, $F:ty, $R:ty, $h:expr, $hinv:expr, $a:expr, $b:expr, $gx:expr, $gy:expr) => {
        #[derive(Clone, Copy, Debug, Default, PartialEq, Eq)]
        pub struct $name;
        impl CurveConfig for $name {
            type BaseField = $F;
            type ScalarField = $R;
            const COFACTOR: &'static [u64] = &[$h];
            const COFACTOR_INV: $R = MontFp!($hinv);
        }
        impl SWCurveConfig for $name {
            const COEFF_A: $F = $a;
            const COEFF_B: $F = $b;
            const GENERATOR: sw::Affine<Self> = sw::Affine::new_unchecked($gx, $gy);
        }
    };
}
macro_rules! q2 {
    ($F:ty, $c0:expr, $c1:expr) => {
        <$F>::new(MontFp!($c0), MontFp!($c1))
    };
}
// y^2 = x^3 + (3+2u) over F_7[u]/(u^2+1): 52 = 4 * 13 points (a = 0, 2-torsion: three points with y = 0)
ext_sw!(SwQ7A0B32, T7Fq2, D13, 4, "10", q2!(T7Fq2, "0", "0"), q2!(T7Fq2, "3", "2"), q2!(T7Fq2, "5", "1"), q2!(T7Fq2, "4", "6"));
// y^2 = x^3 + (1+2u) over F_7[u]/(u^2+1): 61 points, prime order (a = 0, cofactor 1)
ext_sw!(SwQ7A0B12, T7Fq2, D61, 1, "1", q2!(T7Fq2, "0", "0"), q2!(T7Fq2, "1", "2"), q2!(T7Fq2, "1", "0"), q2!(T7Fq2, "5", "3"));
// y^2 = x^3 + u x + (1+u) over F_5[u]/(u^2-2): 34 = 2 * 17 points (a != 0, general non-residue)
ext_sw!(SwQ5AuB11, T5Fq2, D17, 2, "9", q2!(T5Fq2, "0", "1"), q2!(T5Fq2, "1", "1"), q2!(T5Fq2, "2", "3"), q2!(T5Fq2, "1", "4"));
// y^2 = x^3 + u x + (2+2u) over F_13[u]/(u^2-2): 172 = 4 * 43 points (a != 0, general non-residue; = SwQ13A of c03.rs)
ext_sw!(SwQ13AuB22, T13Fq2, D43, 4, "11", q2!(T13Fq2, "0", "1"), q2!(T13Fq2, "2", "2"), q2!(T13Fq2, "9", "12"), q2!(T13Fq2, "4", "0"));

/// model class of rhs(x) = x^3 + a x + b, the argument of the square root taken by decompression
#[derive(Clone, Copy, Debug, PartialEq, Eq)]
enum RhsCls {
    Zero,
    /// (c0, 0) with c0 a non-zero square of F_p: root (s, 0)
    BaseResidue,
    /// (c0, 0) with c0 a non-residue of F_p: still a square of F_p^2, root (0, s) with s^2 = c0 / beta
    BaseNonResidue,
    /// c1 != 0, a square of F_p^2
    GeneralSquare,
    /// c1 != 0, not a square
    GeneralNonSquare,
}

struct ExtToy<P: SWCurveConfig> {
    name: String,
    f: Fp2Model,
    m: SwModel<Fp2Model>,
    g: GroupTable<(u64, u64)>,
    r: u64,
    h: u64,
    gen: usize,
    in_subgroup: Vec<bool>,
    /// per x (index c0 + p c1): the points (y, oracle index) with that x
    by_x: Vec<Vec<((u64, u64), usize)>>,
    rhs_cls: Vec<RhsCls>,
    _p: std::marker::PhantomData<P>,
}
impl<P: SWCurveConfig> ExtToy<P>
where
    P::ScalarField: PrimeField,
{
    fn fe(e: (u64, u64)) -> P::BaseField {
        small_from::<P::BaseField>(&[e.0, e.1])
    }
    fn co(x: &P::BaseField) -> (u64, u64) {
        let c = small_coeffs(x);
        (c[0], c[1])
    }
    fn xi(&self, x: (u64, u64)) -> usize {
        (x.0 + self.f.p * x.1) as usize
    }
    /// builds the oracle group and validates every toy parameter (None: unusable, a validation failed)
    fn new(ctx: &mut Ctx, name: &str, f: Fp2Model) -> Option<Self> {
        let p = f.p;
        let sm = Small::of::<P::BaseField>();
        ctx.validate(sm.p == p && sm.d == 2 && p > 2 && is_prime_small(p), &format!("{name}: base field is a quadratic extension of the prime field F_{p}"));
        ctx.validate(f.beta > 0 && f.beta < p && powmod(f.beta, (p - 1) / 2, p) == p - 1, &format!("{name}: beta = {} is a non-residue of F_{p}", f.beta));
        // the bridge model <-> library field: u^2 = beta, a few sums and products (typo guard; field arithmetic is C02's subject)
        ctx.validate(Self::fe((0, 1)).square() == Self::fe((f.beta, 0)), &format!("{name}: u^2 = beta in the library field"));
        let els = f.elements();
        let probe = [els[1], els[els.len() - 1], els[els.len() / 2 + 3], (0, 1), (p - 1, 2)];
        for a in probe {
            for b in probe {
                ctx.validate(Self::co(&(Self::fe(a) * Self::fe(b))) == f.mul(a, b) && Self::co(&(Self::fe(a) + Self::fe(b))) == f.add(a, b), &format!("{name}: field bridge on {a:?},{b:?}"));
            }
        }
        let m = SwModel { f, a: Self::co(&P::COEFF_A), b: Self::co(&P::COEFF_B) };
        // non-singular: 4 a^3 + 27 b^2 != 0
        let disc = f.add(f.mul(f.from_u64(4), f.mul(m.a, f.sq(m.a))), f.mul(f.from_u64(27), f.sq(m.b)));
        ctx.validate(!f.is_zero(disc), &format!("{name}: discriminant non-zero"));
        let pts = m.points();
        let n = pts.len() as u64;
        let q = f.order();
        let mm = m.clone();
        let g = GroupTable::build(pts, Pt::O, move |a, b| Some(mm.add(a, b)));
        let rl = <P::ScalarField as PrimeField>::MODULUS;
        let r = rl.as_ref()[0];
        ctx.validate(rl.as_ref()[1..].iter().all(|x| *x == 0) && P::COFACTOR.len() == 1, &format!("{name}: r and h fit one limb"));
        let h = P::COFACTOR[0];
        let d = n as i64 - (q as i64 + 1);
        ctx.validate((d * d) as u64 <= 4 * q, &format!("{name}: Hasse bound, #E={n} q={q}"));
        ctx.validate(is_prime_small(r) && n == h * r && h % r != 0, &format!("{name}: #E = {n} = h*r = {h}*{r}, r prime, r does not divide h"));
        let gen_pt = Pt::A(Self::co(&P::GENERATOR.x), Self::co(&P::GENERATOR.y));
        let Some(gen) = g.index.get(&gen_pt).copied() else {
            ctx.validate(false, &format!("{name}: generator on the curve"));
            return None;
        };
        ctx.validate(g.order(gen) == Some(r), &format!("{name}: generator has order r"));
        let hinv = prime_to_u64(&P::COFACTOR_INV);
        ctx.validate((hinv * h) % r == 1 % r, &format!("{name}: COFACTOR_INV = {hinv} inverts h = {h} mod r = {r}"));
        let k = g.n().min(12);
        let mut ok = true;
        for a in 0..k {
            for b in 0..k {
                for c in 0..k {
                    ok &= g.add[g.add[a][b]][c] == g.add[a][g.add[b][c]];
                }
            }
        }
        ctx.validate(ok, &format!("{name}: oracle law associative"));
        let in_subgroup: Vec<bool> = (0..g.n()).map(|i| g.mul(r, i) == Some(g.id)).collect();
        ctx.validate(in_subgroup.iter().filter(|b| **b).count() as u64 == r, &format!("{name}: subgroup has r elements"));
        ctx.validate(h == 1 || in_subgroup.iter().any(|b| !*b), &format!("{name}: cofactor > 1 => points outside the subgroup exist"));
        let mut by_x: Vec<Vec<((u64, u64), usize)>> = vec![Vec::new(); q as usize];
        for (i, pt) in g.pts.iter().enumerate() {
            if let Pt::A(x, y) = pt {
                by_x[(x.0 + p * x.1) as usize].push((*y, i));
            }
        }
        // class of rhs(x), from the model only: residues of F_p by listing the squares
        let base_squares: Vec<bool> = (0..p).map(|c| (1..p).any(|z| z * z % p == c)).collect();
        let mut rhs_cls = vec![RhsCls::Zero; q as usize];
        let mut ok_roots = true;
        for x in &els {
            let i = (x.0 + p * x.1) as usize;
            let rhs = m.rhs(*x);
            let c = if rhs == (0, 0) {
                RhsCls::Zero
            } else if rhs.1 == 0 {
                if base_squares[rhs.0 as usize] {
                    RhsCls::BaseResidue
                } else {
                    RhsCls::BaseNonResidue
                }
            } else if by_x[i].is_empty() {
                RhsCls::GeneralNonSquare
            } else {
                RhsCls::GeneralSquare
            };
            // every element of F_p is a square in F_p^2: a non-residue c0 has the roots (0, +-s), a residue (+-s, 0)
            ok_roots &= match c {
                RhsCls::Zero => by_x[i].len() == 1 && by_x[i][0].0 == (0, 0),
                RhsCls::BaseResidue => by_x[i].len() == 2 && by_x[i].iter().all(|(y, _)| y.1 == 0 && y.0 != 0),
                RhsCls::BaseNonResidue => by_x[i].len() == 2 && by_x[i].iter().all(|(y, _)| y.0 == 0 && y.1 != 0),
                RhsCls::GeneralSquare => by_x[i].len() == 2 && by_x[i].iter().all(|(y, _)| y.0 != 0 && y.1 != 0),
                RhsCls::GeneralNonSquare => true,
            };
            rhs_cls[i] = c;
        }
        ctx.validate(ok_roots, &format!("{name}: shape of the roots of rhs(x) per class (base-field rhs always has a root in F_p^2)"));
        Some(ExtToy { name: name.to_string(), f, m, g, r, h, gen, in_subgroup, by_x, rhs_cls, _p: std::marker::PhantomData })
    }
    fn idx_aff(&self, a: &sw::Affine<P>) -> Option<usize> {
        if a.infinity {
            return Some(self.g.id);
        }
        self.g.index.get(&Pt::A(Self::co(&a.x), Self::co(&a.y))).copied()
    }
    /// decodes X/Z^2, Y/Z^3 with MODEL arithmetic
    fn idx_proj(&self, q: &sw::Projective<P>) -> Option<usize> {
        let (x, y, z) = (Self::co(&q.x), Self::co(&q.y), Self::co(&q.z));
        if z == (0, 0) {
            return Some(self.g.id);
        }
        let f = &self.f;
        let zi = f.inv(z);
        let zi2 = f.sq(zi);
        self.g.index.get(&Pt::A(f.mul(x, zi2), f.mul(y, f.mul(zi2, zi)))).copied()
    }
    /// the root selected by the sign flag: 0x80 = the larger of {y, -y} in the order (c1, then c0)
    fn pick(&self, x: (u64, u64), fm: u8) -> Option<((u64, u64), usize)> {
        let ys = &self.by_x[self.xi(x)];
        let key = |e: &&((u64, u64), usize)| (e.0 .1, e.0 .0);
        if fm == 0x80 {
            ys.iter().max_by_key(key).copied()
        } else {
            ys.iter().min_by_key(key).copied()
        }
    }
}

/// model bytes of a point over F_p^2 (None = identity)
fn sw_ext_small_bytes(m: &Small, pt: Option<((u64, u64), (u64, u64))>, compress: bool, out: &mut [u8]) -> usize {
    let (x, y, mask) = match pt {
        None => ((0, 0), (0, 0), 0x40u8),
        Some((x, y)) => {
            let ny = ((m.p - y.0) % m.p, (m.p - y.1) % m.p);
            (x, y, if (y.1, y.0) > (ny.1, ny.0) { 0x80 } else { 0 })
        }
    };
    if compress {
        m.enc(&[x.0, x.1], 2, mask, out)
    } else {
        let n = m.enc(&[x.0, x.1], 0, 0, out);
        n + m.enc(&[y.0, y.1], 2, mask, &mut out[n..])
    }
}

fn sw_ext_points<P: SWCurveConfig>(ctx: &mut Ctx, name: &str, f: Fp2Model)
where
    P::ScalarField: PrimeField,
{
    let Some(t) = ExtToy::<P>::new(ctx, name, f) else { return };
    let t = &t;
    let p = f.p;
    let m = Small::new(p, 2);
    let n = t.g.n() as u64;
    let q = f.order();
    let els = f.elements();
    let els = &els;
    // variants: 0 affine, 1 projective z = 1, 2.. projective with every z of F_q^* (identity: junk coordinates)
    let nv = 2 + (q - 1);
    let (gx, gy) = match t.g.pts[t.gen] {
        Pt::A(x, y) => (x, y),
        Pt::O => unreachable!(),
    };
    let fe = |e: (u64, u64)| ExtToy::<P>::fe(e);
    let beta_minus_one = f.beta == p - 1;
    ctx.sweep(&format!("points_ext_toy/{name}"), n * nv * 4, |i, loc| {
        let [ip, var, mode] = unrank(i, [n, nv, 4]);
        let ip = ip as usize;
        let (cm, vm) = MODES[mode as usize];
        let compress = cm == Compress::Yes;
        let pt = match t.g.pts[ip] {
            Pt::O => None,
            Pt::A(x, y) => Some((x, y)),
        };
        let in_sub = t.in_subgroup[ip];
        let z = if var >= 2 { els[(var - 1) as usize] } else { (1, 0) }; // els[0] = 0 is skipped
        let (aff, proj): (Option<sw::Affine<P>>, Option<sw::Projective<P>>) = match (pt, var) {
            (None, 0) => (Some(sw::Affine::identity()), None),
            (None, 1) => (Some(sw::Affine { x: fe((5 % p, 1)), y: fe((3, 2)), infinity: true }), None),
            (None, 2) => (None, Some(sw::Projective::new_unchecked(fe((1, 0)), fe((1, 0)), fe((0, 0))))),
            (None, 3) => (None, Some(sw::Projective::new_unchecked(fe((0, 0)), fe((0, 0)), fe((0, 0))))),
            (None, 4) => (None, Some(sw::Projective::new_unchecked(fe(gx), fe(gy), fe((0, 0))))),
            (None, v) => (None, Some(sw::Projective::new_unchecked(fe(els[(v % q) as usize]), fe(els[((3 * v + 1) % q) as usize]), fe((0, 0))))),
            (Some(_), 0) => (Some(sw::Affine::new_unchecked(fe(pt.unwrap().0), fe(pt.unwrap().1))), None),
            (Some((x, y)), _) => {
                // Jacobian representative (x z^2, y z^3, z) by model arithmetic
                let z2 = f.sq(z);
                (None, Some(sw::Projective::new_unchecked(fe(f.mul(x, z2)), fe(f.mul(y, f.mul(z2, z))), fe(z))))
            }
        };
        let neg = |y: (u64, u64)| ((p - y.0) % p, (p - y.1) % p);
        loc.class_if(pt.is_none(), "ext:identity");
        loc.class_if(pt.is_none() && (var == 1 || var >= 3), "ext:identity_junk_coordinates");
        loc.class_if(matches!(pt, Some((_, (0, 0)))), "ext:y=0_tie");
        loc.class_if(matches!(pt, Some((_, y)) if y.1 != 0 && y.1 > neg(y).1), "ext:y>-y_decided_by_c1");
        loc.class_if(matches!(pt, Some((_, y)) if y.1 == 0 && y.0 != 0 && y.0 > neg(y).0), "ext:y>-y_decided_by_c0");
        loc.class_if(matches!(pt, Some((_, y)) if y != (0, 0) && (y.1, y.0) < (neg(y).1, neg(y).0)), "ext:y<-y");
        loc.class_if(pt.is_some() && var >= 2 && z != (1, 0), "ext:proj_z!=1");
        loc.class_if(pt.is_some() && var >= 2 && z.1 != 0, "ext:proj_z_outside_base_field");
        loc.class_if(!in_sub, "ext:point_outside_subgroup");
        loc.class_if(beta_minus_one, "ext:beta=-1");
        loc.class_if(!beta_minus_one, "ext:beta!=-1");
        let mut want = [0u8; 24];
        let wl = sw_ext_small_bytes(&m, pt, compress, &mut want);
        let want = &want[..wl];
        let what = || format!("{name} point #{ip} {pt:?} variant {var} (z = {z:?}) {}", mode_name(mode as usize));
        if loc.sampling() {
            loc.sample(format!("{} model bytes {}", what(), hex(want)));
        }
        let written = match (&aff, &proj) {
            (Some(a), _) => check_ser(loc, "sw_ext_affine/serialize", &what, a, cm, want),
            (_, Some(pj)) => check_ser(loc, "sw_ext_projective/serialize", &what, pj, cm, want),
            _ => unreachable!(),
        };
        // read back what was written (with one trailing byte that must stay unread)
        let wl = written.len();
        let mut ext = written.clone();
        ext.push(0xa5);
        let expect_ok = vm == Validate::No || in_sub;
        let mut rd = CountReader::new(&ext);
        let ga = sw::Affine::<P>::deserialize_with_mode(&mut rd, cm, vm);
        let pos_a = rd.pos;
        let mut rd = CountReader::new(&ext);
        let gp = sw::Projective::<P>::deserialize_with_mode(&mut rd, cm, vm);
        let pos_p = rd.pos;
        if !expect_ok {
            observe_checked_outside(loc, ga.is_err(), gp.is_err());
        }
        if expect_ok || ga.is_ok() {
            let ia = ga.as_ref().ok().and_then(|a| t.idx_aff(a));
            let exact = match (&ga, pt) {
                (Ok(a), None) => a.infinity,
                (Ok(a), Some((x, y))) => !a.infinity && ExtToy::<P>::co(&a.x) == x && ExtToy::<P>::co(&a.y) == y,
                _ => false,
            };
            loc.check_at("sw_ext_affine/deserialize", ia == Some(ip) && exact && pos_a == wl, || {
                format!("{}: bytes {} read back as {:?} (oracle index {ia:?}), consumed {pos_a}", what(), hex(&written), ga.as_ref().map_err(|e| e.to_string()))
            });
        }
        if expect_ok || gp.is_ok() {
            let ipj = gp.as_ref().ok().and_then(|pj| t.idx_proj(pj));
            loc.check_at("sw_ext_projective/deserialize", ipj == Some(ip) && pos_p == wl, || {
                format!("{}: bytes {} read back as {:?} (oracle index {ipj:?}), consumed {pos_p}", what(), hex(&written), gp.as_ref().map_err(|e| e.to_string()))
            });
        }
    });
}

// ------------------------------------------------------------------------------------------
// Points (E3): every point of ONE toy short-Weierstrass curve over a CUBIC extension field,
// F_343 = F_7[u]/(u^3 - 2): y^2 = x^3 + u x + (1 + u + u^2), 366 = 6 * 61 points (= SwC7A of c03.rs;
// same curve as in c10.rs).  Format model read off ff/src/fields/models/cubic_extension.rs: c0, c1 as
// plain base-field elements, then c2 carrying the flag bits; sign flag = "y is the larger of {y, -y}"
// in the order of CubicExtField::cmp (c2 first, then c1, then c0): the ties c2 = 0 and c2 = c1 = 0
// are mandatory classes.
// ------------------------------------------------------------------------------------------
/// F_p[u]/(u^3 - beta), elements (c0, c1, c2), schoolbook (same model as c03.rs)
#[derive(Clone, Copy, Debug)]
struct Fp3Model {
    p: u64,
    beta: u64,
}
impl FieldModel for Fp3Model {
    type E = (u64, u64, u64);
    fn zero(&self) -> Self::E {
        (0, 0, 0)
    }
    fn one(&self) -> Self::E {
        (1, 0, 0)
    }
    fn add(&self, a: Self::E, b: Self::E) -> Self::E {
        ((a.0 + b.0) % self.p, (a.1 + b.1) % self.p, (a.2 + b.2) % self.p)
    }
    fn sub(&self, a: Self::E, b: Self::E) -> Self::E {
        let p = self.p;
        ((a.0 + p - b.0) % p, (a.1 + p - b.1) % p, (a.2 + p - b.2) % p)
    }
    fn neg(&self, a: Self::E) -> Self::E {
        let p = self.p;
        ((p - a.0) % p, (p - a.1) % p, (p - a.2) % p)
    }
    fn mul(&self, a: Self::E, b: Self::E) -> Self::E {
        let (p, be) = (self.p, self.beta);
        let c0 = (a.0 * b.0 + be * ((a.1 * b.2 + a.2 * b.1) % p)) % p;
        let c1 = (a.0 * b.1 + a.1 * b.0 + be * (a.2 * b.2 % p)) % p;
        let c2 = (a.0 * b.2 + a.1 * b.1 + a.2 * b.0) % p;
        (c0, c1, c2)
    }
    fn inv(&self, a: Self::E) -> Self::E {
        assert!(a != (0, 0, 0), "model: inverse of zero");
        self.pow(a, self.p * self.p * self.p - 2)
    }
    fn from_u64(&self, x: u64) -> Self::E {
        (x % self.p, 0, 0)
    }
    fn elements(&self) -> Vec<Self::E> {
        let p = self.p;
        let mut v = Vec::with_capacity((p * p * p) as usize);
        for c2 in 0..p {
            for c1 in 0..p {
                for c0 in 0..p {
                    v.push((c0, c1, c2));
                }
            }
        }
        v
    }
    fn order(&self) -> u64 {
        self.p * self.p * self.p
    }
}
ext_sw!(
    SwC7AuB111,
    F7x3,
    D61,
    6,
    "51",
    F7x3::new(MontFp!("0"), MontFp!("1"), MontFp!("0")),
    F7x3::new(MontFp!("1"), MontFp!("1"), MontFp!("1")),
    F7x3::new(MontFp!("0"), MontFp!("1"), MontFp!("0")),
    F7x3::new(MontFp!("0"), MontFp!("3"), MontFp!("2"))
);
type E3 = (u64, u64, u64);

/// model bytes of a point over F_p^3 (None = identity)
fn sw_ext3_small_bytes(m: &Small, pt: Option<(E3, E3)>, compress: bool, out: &mut [u8]) -> usize {
    let (x, y, mask) = match pt {
        None => ((0, 0, 0), (0, 0, 0), 0x40u8),
        Some((x, y)) => {
            let ny = ((m.p - y.0) % m.p, (m.p - y.1) % m.p, (m.p - y.2) % m.p);
            (x, y, if (y.2, y.1, y.0) > (ny.2, ny.1, ny.0) { 0x80 } else { 0 })
        }
    };
    if compress {
        m.enc(&[x.0, x.1, x.2], 2, mask, out)
    } else {
        let n = m.enc(&[x.0, x.1, x.2], 0, 0, out);
        n + m.enc(&[y.0, y.1, y.2], 2, mask, &mut out[n..])
    }
}

fn sw_ext3_points<P: SWCurveConfig>(ctx: &mut Ctx, name: &str, f: Fp3Model)
where
    P::ScalarField: PrimeField,
{
    let p = f.p;
    let fe = |e: E3| small_from::<P::BaseField>(&[e.0, e.1, e.2]);
    let co = |x: &P::BaseField| {
        let c = small_coeffs(x);
        (c[0], c[1], c[2])
    };
    // ---- self-validation of the toy parameters (brute force with the model)
    let sm = Small::of::<P::BaseField>();
    ctx.validate(sm.p == p && sm.d == 3 && is_prime_small(p), &format!("{name}: base field is a cubic extension of the prime field F_{p}"));
    ctx.validate(p % 3 == 1 && powmod(f.beta, (p - 1) / 3, p) != 1, &format!("{name}: beta = {} is a cubic non-residue of F_{p}", f.beta));
    ctx.validate(fe((0, 1, 0)) * fe((0, 0, 1)) == fe((f.beta, 0, 0)), &format!("{name}: u^3 = beta in the library field"));
    let els = f.elements();
    let probe = [els[1], els[els.len() - 1], els[els.len() / 2 + 3], (0, 1, 0), (p - 1, 2, 3), (0, 0, 1)];
    for a in probe {
        for b in probe {
            ctx.validate(co(&(fe(a) * fe(b))) == f.mul(a, b) && co(&(fe(a) + fe(b))) == f.add(a, b), &format!("{name}: field bridge on {a:?},{b:?}"));
        }
    }
    let sm_model = SwModel { f, a: co(&P::COEFF_A), b: co(&P::COEFF_B) };
    let disc = f.add(f.mul(f.from_u64(4), f.mul(sm_model.a, f.sq(sm_model.a))), f.mul(f.from_u64(27), f.sq(sm_model.b)));
    ctx.validate(!f.is_zero(disc), &format!("{name}: discriminant non-zero"));
    let pts = sm_model.points();
    let n = pts.len() as u64;
    let q = f.order();
    let mm = sm_model.clone();
    let g = GroupTable::build(pts, Pt::O, move |a, b| Some(mm.add(a, b)));
    let rl = <P::ScalarField as PrimeField>::MODULUS;
    let r = rl.as_ref()[0];
    ctx.validate(rl.as_ref()[1..].iter().all(|x| *x == 0) && P::COFACTOR.len() == 1, &format!("{name}: r and h fit one limb"));
    let h = P::COFACTOR[0];
    let d = n as i64 - (q as i64 + 1);
    ctx.validate((d * d) as u64 <= 4 * q, &format!("{name}: Hasse bound, #E={n} q={q}"));
    ctx.validate(is_prime_small(r) && n == h * r && h % r != 0 && h > 1, &format!("{name}: #E = {n} = h*r = {h}*{r}, r prime, r does not divide h, h > 1"));
    let gen_pt = Pt::A(co(&P::GENERATOR.x), co(&P::GENERATOR.y));
    let Some(gen) = g.index.get(&gen_pt).copied() else {
        ctx.validate(false, &format!("{name}: generator on the curve"));
        return;
    };
    ctx.validate(g.order(gen) == Some(r), &format!("{name}: generator has order r"));
    let in_subgroup: Vec<bool> = (0..g.n()).map(|i| g.mul(r, i) == Some(g.id)).collect();
    ctx.validate(in_subgroup.iter().filter(|b| **b).count() as u64 == r, &format!("{name}: subgroup has r elements"));
    let (g, in_subgroup, els) = (&g, &in_subgroup, &els);
    let idx_aff = |a: &sw::Affine<P>| -> Option<usize> {
        if a.infinity {
            return Some(g.id);
        }
        g.index.get(&Pt::A(co(&a.x), co(&a.y))).copied()
    };
    // decodes X/Z^2, Y/Z^3 with MODEL arithmetic
    let idx_proj = |pj: &sw::Projective<P>| -> Option<usize> {
        let (x, y, z) = (co(&pj.x), co(&pj.y), co(&pj.z));
        if z == (0, 0, 0) {
            return Some(g.id);
        }
        let zi = f.inv(z);
        let zi2 = f.sq(zi);
        g.index.get(&Pt::A(f.mul(x, zi2), f.mul(y, f.mul(zi2, zi)))).copied()
    };
    let m = Small::new(p, 3);
    // variants: 0 affine, 1 projective z = 1, 2.. projective with every z of F_q^* (identity: junk coordinates)
    let nv = 2 + (q - 1);
    let (gx, gy) = match g.pts[gen] {
        Pt::A(x, y) => (x, y),
        Pt::O => unreachable!(),
    };
    ctx.sweep(&format!("points_ext3_toy/{name}"), n * nv * 4, |i, loc| {
        let [ip, var, mode] = unrank(i, [n, nv, 4]);
        let ip = ip as usize;
        let (cm, vm) = MODES[mode as usize];
        let compress = cm == Compress::Yes;
        let pt = match g.pts[ip] {
            Pt::O => None,
            Pt::A(x, y) => Some((x, y)),
        };
        let in_sub = in_subgroup[ip];
        let z = if var >= 2 { els[(var - 1) as usize] } else { (1, 0, 0) }; // els[0] = 0 is skipped
        let zero = (0, 0, 0);
        let (aff, proj): (Option<sw::Affine<P>>, Option<sw::Projective<P>>) = match (pt, var) {
            (None, 0) => (Some(sw::Affine::identity()), None),
            (None, 1) => (Some(sw::Affine { x: fe((5 % p, 1, 2)), y: fe((3, 2, 0)), infinity: true }), None),
            (None, 2) => (None, Some(sw::Projective::new_unchecked(fe((1, 0, 0)), fe((1, 0, 0)), fe(zero)))),
            (None, 3) => (None, Some(sw::Projective::new_unchecked(fe(zero), fe(zero), fe(zero)))),
            (None, 4) => (None, Some(sw::Projective::new_unchecked(fe(gx), fe(gy), fe(zero)))),
            (None, v) => (None, Some(sw::Projective::new_unchecked(fe(els[(v % q) as usize]), fe(els[((3 * v + 1) % q) as usize]), fe(zero)))),
            (Some((x, y)), 0) => (Some(sw::Affine::new_unchecked(fe(x), fe(y))), None),
            (Some((x, y)), _) => {
                // Jacobian representative (x z^2, y z^3, z) by model arithmetic
                let z2 = f.sq(z);
                (None, Some(sw::Projective::new_unchecked(fe(f.mul(x, z2)), fe(f.mul(y, f.mul(z2, z))), fe(z))))
            }
        };
        let neg = |y: E3| ((p - y.0) % p, (p - y.1) % p, (p - y.2) % p);
        let key = |y: E3| (y.2, y.1, y.0);
        loc.class_if(pt.is_none(), "ext3:identity");
        loc.class_if(pt.is_none() && (var == 1 || var >= 3), "ext3:identity_junk_coordinates");
        loc.class_if(matches!(pt, Some((_, (0, 0, 0)))), "ext3:y=0_tie");
        loc.class_if(matches!(pt, Some((_, y)) if y.2 != 0 && key(y) > key(neg(y))), "ext3:y>-y_decided_by_c2");
        loc.class_if(matches!(pt, Some((_, y)) if y.2 == 0 && y.1 != 0 && key(y) > key(neg(y))), "ext3:y>-y_decided_by_c1(c2=0)");
        loc.class_if(matches!(pt, Some((_, y)) if y.2 == 0 && y.1 == 0 && y.0 != 0 && key(y) > key(neg(y))), "ext3:y>-y_decided_by_c0(c2=c1=0)");
        loc.class_if(matches!(pt, Some((_, y)) if y.2 == 0 && y.1 != 0 && key(y) < key(neg(y))), "ext3:y<-y_decided_by_c1(c2=0)");
        loc.class_if(matches!(pt, Some((_, y)) if y.2 == 0 && y.1 == 0 && y.0 != 0 && key(y) < key(neg(y))), "ext3:y<-y_decided_by_c0(c2=c1=0)");
        loc.class_if(matches!(pt, Some((_, y)) if y.2 != 0 && key(y) < key(neg(y))), "ext3:y<-y_decided_by_c2");
        loc.class_if(pt.is_some() && var >= 2 && z != (1, 0, 0), "ext3:proj_z!=1");
        loc.class_if(pt.is_some() && var >= 2 && (z.1 != 0 || z.2 != 0), "ext3:proj_z_outside_base_field");
        loc.class_if(!in_sub, "ext3:point_outside_subgroup");
        let mut want = [0u8; 24];
        let wl = sw_ext3_small_bytes(&m, pt, compress, &mut want);
        let want = &want[..wl];
        let what = || format!("{name} point #{ip} {pt:?} variant {var} (z = {z:?}) {}", mode_name(mode as usize));
        if loc.sampling() {
            loc.sample(format!("{} model bytes {}", what(), hex(want)));
        }
        let written = match (&aff, &proj) {
            (Some(a), _) => check_ser(loc, "sw_ext3_affine/serialize", &what, a, cm, want),
            (_, Some(pj)) => check_ser(loc, "sw_ext3_projective/serialize", &what, pj, cm, want),
            _ => unreachable!(),
        };
        // read back what was written (with one trailing byte that must stay unread)
        let wl = written.len();
        let mut ext = written.clone();
        ext.push(0xa5);
        let expect_ok = vm == Validate::No || in_sub;
        let mut rd = CountReader::new(&ext);
        let ga = sw::Affine::<P>::deserialize_with_mode(&mut rd, cm, vm);
        let pos_a = rd.pos;
        let mut rd = CountReader::new(&ext);
        let gp = sw::Projective::<P>::deserialize_with_mode(&mut rd, cm, vm);
        let pos_p = rd.pos;
        if !expect_ok {
            observe_checked_outside(loc, ga.is_err(), gp.is_err());
        }
        if expect_ok || ga.is_ok() {
            let ia = ga.as_ref().ok().and_then(|a| idx_aff(a));
            let exact = match (&ga, pt) {
                (Ok(a), None) => a.infinity,
                (Ok(a), Some((x, y))) => !a.infinity && co(&a.x) == x && co(&a.y) == y,
                _ => false,
            };
            loc.check_at("sw_ext3_affine/deserialize", ia == Some(ip) && exact && pos_a == wl, || {
                format!("{}: bytes {} read back as {:?} (oracle index {ia:?}), consumed {pos_a}", what(), hex(&written), ga.as_ref().map_err(|e| e.to_string()))
            });
        }
        if expect_ok || gp.is_ok() {
            let ipj = gp.as_ref().ok().and_then(|pj| idx_proj(pj));
            loc.check_at("sw_ext3_projective/deserialize", ipj == Some(ip) && pos_p == wl, || {
                format!("{}: bytes {} read back as {:?} (oracle index {ipj:?}), consumed {pos_p}", what(), hex(&written), gp.as_ref().map_err(|e| e.to_string()))
            });
        }
    });
}

macro_rules! toy_sw {
    ($P:ty, $name:expr, $ctx:expr) => {
        sw_toy_points::<$P>($ctx, $name);
    };
}
macro_rules! toy_te {
    ($P:ty, $name:expr, $ctx:expr) => {
        te_toy_points::<$P>($ctx, $name);
    };
}

// ------------------------------------------------------------------------------------------
// Points (A): shipped curves.  Oracle group law: textbook affine formulas over the (C01/C02
// checked) field operations, plain double-and-add.
// ------------------------------------------------------------------------------------------
#[derive(Clone, Copy, PartialEq, Eq, Debug)]
enum AP<E> {
    O,
    A(E, E),
}
fn sw_add<E: Field>(a: &E, p: &AP<E>, q: &AP<E>) -> AP<E> {
    match (p, q) {
        (AP::O, _) => *q,
        (_, AP::O) => *p,
        (AP::A(x1, y1), AP::A(x2, y2)) => {
            let l = if x1 == x2 {
                if (*y1 + y2).is_zero() {
                    return AP::O;
                }
                let x1s = x1.square();
                (x1s.double() + x1s + a) * y1.double().inverse().unwrap()
            } else {
                (*y2 - y1) * (*x2 - x1).inverse().unwrap()
            };
            let x3 = l.square() - x1 - x2;
            let y3 = l * (*x1 - x3) - y1;
            AP::A(x3, y3)
        }
    }
}
fn sw_mul<E: Field>(a: &E, p: &AP<E>, k: &BigUint) -> AP<E> {
    let mut acc = AP::O;
    for i in (0..k.bits()).rev() {
        acc = sw_add(a, &acc, &acc);
        if k.bit(i) {
            acc = sw_add(a, &acc, p);
        }
    }
    acc
}
fn sw_neg<E: Field>(p: &AP<E>) -> AP<E> {
    match p {
        AP::O => AP::O,
        AP::A(x, y) => AP::A(*x, -*y),
    }
}
fn sw_on_curve<E: Field>(a: &E, b: &E, p: &AP<E>) -> bool {
    match p {
        AP::O => true,
        AP::A(x, y) => y.square() == x.square() * x + *a * x + b,
    }
}
fn te_add<E: Field>(a: &E, d: &E, p: &(E, E), q: &(E, E)) -> Option<(E, E)> {
    let t = *d * p.0 * q.0 * p.1 * q.1;
    let dx = (E::one() + t).inverse()?;
    let dy = (E::one() - t).inverse()?;
    Some(((p.0 * q.1 + p.1 * q.0) * dx, (p.1 * q.1 - *a * p.0 * q.0) * dy))
}
fn te_mul<E: Field>(a: &E, d: &E, p: &(E, E), k: &BigUint) -> Option<(E, E)> {
    let mut acc = (E::zero(), E::one());
    for i in (0..k.bits()).rev() {
        acc = te_add(a, d, &acc, &acc)?;
        if k.bit(i) {
            acc = te_add(a, d, &acc, p)?;
        }
    }
    Some(acc)
}
fn te_on_curve<E: Field>(a: &E, d: &E, p: &(E, E)) -> bool {
    let (x2, y2) = (p.0.square(), p.1.square());
    *a * x2 + y2 == E::one() + *d * x2 * y2
}
/// e > -e in the library's documented order (lexicographic, highest coefficient first); -e by the model
fn is_larger<E: Field>(m: &Big, e: &E) -> bool {
    let c = coeffs(e);
    for j in (0..m.d).rev() {
        let n = (&m.p - &c[j]) % &m.p;
        if c[j] != n {
            return c[j] > n;
        }
    }
    false
}

#[derive(Clone, Copy, PartialEq, Eq, Debug)]
enum Fmt {
    /// ark-serialize default: little-endian, flags in the top bits of the last byte
    Default,
    /// BLS12-381 zcash format: big-endian 48-byte coefficients, highest coefficient first, 3 flag bits in byte 0
    Zcash,
}
fn sw_big_bytes<E: Field>(m: &Big, fmt: Fmt, pt: &AP<E>, compress: bool) -> Vec<u8> {
    match fmt {
        Fmt::Default => {
            let zeros = vec![BigUint::zero(); m.d];
            let (cx, cy, mask) = match pt {
                AP::O => (zeros.clone(), zeros, 0x40u8),
                AP::A(x, y) => (coeffs(x), coeffs(y), if is_larger(m, y) { 0x80 } else { 0 }),
            };
            if compress {
                m.enc(&cx, 2, mask)
            } else {
                let mut out = m.enc(&cx, 0, 0);
                out.extend(m.enc(&cy, 2, mask));
                out
            }
        }
        Fmt::Zcash => {
            let be = |c: &[BigUint]| -> Vec<u8> {
                let mut out = Vec::new();
                for v in c.iter().rev() {
                    let mut b = v.to_bytes_le();
                    b.resize(48, 0);
                    b.reverse();
                    out.extend(b);
                }
                out
            };
            let zeros = vec![BigUint::zero(); m.d];
            let mut out;
            match pt {
                AP::O => {
                    out = be(&zeros);
                    if !compress {
                        out.extend(be(&zeros));
                    }
                    out[0] |= 0x40;
                }
                AP::A(x, y) => {
                    out = be(&coeffs(x));
                    if !compress {
                        out.extend(be(&coeffs(y)));
                    } else if is_larger(m, y) {
                        out[0] |= 0x20;
                    }
                }
            }
            if compress {
                out[0] |= 0x80;
            }
            out
        }
    }
}
fn te_big_bytes<E: Field>(m: &Big, pt: &(E, E), compress: bool) -> Vec<u8> {
    if compress {
        m.enc(&coeffs(&pt.1), 1, if is_larger(m, &pt.0) { 0x80 } else { 0 })
    } else {
        let mut out = m.enc(&coeffs(&pt.0), 0, 0);
        out.extend(m.enc(&coeffs(&pt.1), 0, 0));
        out
    }
}

type Case = Box<dyn Fn(&mut Loc) + Send + Sync>;

enum SwRepr<P: SWCurveConfig> {
    Aff(sw::Affine<P>),
    Proj(sw::Projective<P>),
}
fn sw_lib_aff<P: SWCurveConfig>(p: &AP<P::BaseField>) -> sw::Affine<P> {
    match p {
        AP::O => sw::Affine::identity(),
        AP::A(x, y) => sw::Affine::new_unchecked(*x, *y),
    }
}
fn sw_lib_proj<P: SWCurveConfig>(p: &AP<P::BaseField>, z: P::BaseField) -> sw::Projective<P> {
    match p {
        AP::O => sw::Projective::new_unchecked(P::BaseField::one(), P::BaseField::one(), P::BaseField::zero()),
        AP::A(x, y) => {
            let z2 = z.square();
            sw::Projective::new_unchecked(*x * z2, *y * z2 * z, z)
        }
    }
}
fn sw_same_aff<P: SWCurveConfig>(a: &sw::Affine<P>, v: &AP<P::BaseField>) -> bool {
    match v {
        AP::O => a.infinity,
        AP::A(x, y) => !a.infinity && a.x == *x && a.y == *y,
    }
}
fn sw_same_proj<P: SWCurveConfig>(q: &sw::Projective<P>, v: &AP<P::BaseField>) -> bool {
    match v {
        AP::O => q.z.is_zero(),
        AP::A(x, y) => {
            let z2 = q.z.square();
            !q.z.is_zero() && q.x == *x * z2 && q.y == *y * z2 * q.z
        }
    }
}
fn generic_elem<E: Field>() -> E {
    // a fixed generic-looking non-zero element with every coefficient populated
    let d = E::extension_degree() as usize;
    from_coeffs::<E>(&(0..d).map(|j| BigUint::from(GENERIC64) + BigUint::from(j as u64 + 2)).collect::<Vec<_>>())
}

fn sw_shipped_cases<P: SWCurveConfig>(name: &'static str, fmt: Fmt) -> (Vec<Case>, Vec<String>)
where
    P::ScalarField: PrimeField,
{
    let mut notes = Vec::new();
    let m = std::sync::Arc::new(Big::of::<P::BaseField>());
    let (a, b) = (P::COEFF_A, P::COEFF_B);
    let r = from_limbs(<P::ScalarField as PrimeField>::MODULUS.as_ref());
    let h = from_limbs(P::COFACTOR);
    let g = AP::A(P::GENERATOR.x, P::GENERATOR.y);
    if !sw_on_curve(&a, &b, &g) {
        notes.push(format!("{name}: generator not on the curve by the oracle equation"));
    }
    let g2 = sw_add(&a, &g, &g);
    let gm = sw_mul(&a, &g, &(&r - 1u32));
    if gm != sw_neg(&g) {
        notes.push(format!("{name}: (r-1)G != -G by the oracle law"));
    }
    // (label, representation, value, in prime-order subgroup)
    let mut items: Vec<(String, SwRepr<P>, AP<P::BaseField>, bool)> = Vec::new();
    let gen_z: P::BaseField = generic_elem();
    let two = P::BaseField::from(2u64);
    items.push(("O/affine".into(), SwRepr::Aff(sw::Affine::identity()), AP::O, true));
    items.push(("O/affine_junk".into(), SwRepr::Aff(sw::Affine { x: P::GENERATOR.x, y: P::GENERATOR.y, infinity: true }), AP::O, true));
    items.push(("O/projective_zero()".into(), SwRepr::Proj(sw::Projective::zero()), AP::O, true));
    items.push(("O/projective_junk".into(), SwRepr::Proj(sw::Projective::new_unchecked(P::GENERATOR.x, P::GENERATOR.y, P::BaseField::zero())), AP::O, true));
    let mut named: Vec<(String, AP<P::BaseField>, bool)> = vec![
        ("G".into(), g, true),
        ("-G".into(), sw_neg(&g), true),
        ("2G".into(), g2, true),
        ("-2G".into(), sw_neg(&g2), true),
        ("(r-1)G".into(), gm, true),
        ("3G".into(), sw_add(&a, &g2, &g), true),
    ];
    if h > BigUint::one() {
        // first curve point outside the subgroup from x = 0, 1, 2, ... (library sqrt only proposes y; the oracle verifies)
        let mut found = false;
        for i in 0u64..200 {
            let x = P::BaseField::from(i);
            let rhs = x.square() * x + a * x + b;
            if let Some(y) = rhs.sqrt() {
                let n = AP::A(x, y);
                if sw_on_curve(&a, &b, &n) && sw_mul(&a, &n, &r) != AP::O {
                    named.push((format!("N(x={i})"), n, false));
                    named.push((format!("-N(x={i})"), sw_neg(&n), false));
                    found = true;
                    break;
                }
            }
        }
        if !found {
            notes.push(format!("{name}: no point outside the subgroup found for x < 200"));
        }
    }
    for (l, v, s) in &named {
        items.push((l.clone(), SwRepr::Aff(sw_lib_aff::<P>(v)), *v, *s));
        items.push((format!("{l}/proj z=1"), SwRepr::Proj(sw_lib_proj::<P>(v, P::BaseField::one())), *v, *s));
        items.push((format!("{l}/proj z=2"), SwRepr::Proj(sw_lib_proj::<P>(v, two)), *v, *s));
        items.push((format!("{l}/proj z=generic"), SwRepr::Proj(sw_lib_proj::<P>(v, gen_z)), *v, *s));
    }
    let mut cases: Vec<Case> = Vec::new();
    for (label, repr, val, in_sub) in items {
        let repr = std::sync::Arc::new(repr);
        for mode in 0..4usize {
            let (m, repr, label) = (m.clone(), repr.clone(), label.clone());
            cases.push(Box::new(move |loc: &mut Loc| {
                let (cm, vm) = MODES[mode];
                let want = sw_big_bytes(&m, fmt, &val, cm == Compress::Yes);
                let what = || format!("{name} {label} {}", mode_name(mode));
                loc.class_if(val == AP::O, "identity");
                loc.class_if(label.contains("junk"), "identity_junk_coordinates");
                loc.class_if(matches!(&val, AP::A(_, y) if is_larger(&m, y)), "y>-y");
                loc.class_if(matches!(&val, AP::A(_, y) if !is_larger(&m, y)), "y<=-y");
                loc.class_if(label.contains("z=2") || label.contains("z=generic"), "proj_z!=1");
                loc.class_if(!in_sub, "point_outside_subgroup");
                loc.class_if(fmt == Fmt::Zcash, "zcash_format");
                loc.class_if(fmt == Fmt::Default && m.llen(2) > m.blen(), "flags_spill_to_extra_byte");
                loc.class(SPARE[m.spare()]);
                if loc.sampling() {
                    loc.sample(format!("{} model bytes {}", what(), hexs(&want)));
                }
                let model = want;
                let want = match &*repr {
                    SwRepr::Aff(p) => check_ser(loc, &format!("{name}/affine_serialize"), &what, p, cm, &model),
                    SwRepr::Proj(p) => check_ser(loc, &format!("{name}/projective_serialize"), &what, p, cm, &model),
                };
                // round trip from the bytes that were written
                let mut ext = want.clone();
                ext.push(0xa5);
                let mut rd = CountReader::new(&ext);
                let ga = sw::Affine::<P>::deserialize_with_mode(&mut rd, cm, vm);
                let pos_a = rd.pos;
                let mut rd = CountReader::new(&ext);
                let gp = sw::Projective::<P>::deserialize_with_mode(&mut rd, cm, vm);
                let pos_p = rd.pos;
                let expect_ok = vm == Validate::No || in_sub;
                if !expect_ok {
                    observe_checked_outside(loc, ga.is_err(), gp.is_err());
                }
                if expect_ok || ga.is_ok() {
                    loc.check_at(&format!("{name}/affine_deserialize"), matches!(&ga, Ok(p) if sw_same_aff(p, &val)) && pos_a == want.len(), || {
                        format!("{}: bytes {} read back as {:?}, consumed {pos_a} of {}", what(), hexs(&want), ga.as_ref().map_err(|e| e.to_string()), want.len())
                    });
                }
                if expect_ok || gp.is_ok() {
                    loc.check_at(&format!("{name}/projective_deserialize"), matches!(&gp, Ok(p) if sw_same_proj(p, &val)) && pos_p == want.len(), || {
                        format!("{}: bytes {} read back as {:?}, consumed {pos_p} of {}", what(), hexs(&want), gp.as_ref().map_err(|e| e.to_string()), want.len())
                    });
                }
                // convenience wrappers agree with the general methods
                let (mut v1, mut v2) = (Vec::new(), Vec::new());
                let ok = match &*repr {
                    SwRepr::Aff(p) => p.serialize_compressed(&mut v1).is_ok() && p.serialize_uncompressed(&mut v2).is_ok(),
                    SwRepr::Proj(p) => p.serialize_compressed(&mut v1).is_ok() && p.serialize_uncompressed(&mut v2).is_ok(),
                };
                let conv = match mode {
                    0 => v1 == want && sw::Affine::<P>::deserialize_compressed(&v1[..]).ok() == ga.ok(),
                    1 => v1 == want && sw::Affine::<P>::deserialize_compressed_unchecked(&v1[..]).ok() == ga.ok(),
                    2 => v2 == want && sw::Affine::<P>::deserialize_uncompressed(&v2[..]).ok() == ga.ok(),
                    _ => v2 == want && sw::Affine::<P>::deserialize_uncompressed_unchecked(&v2[..]).ok() == ga.ok(),
                };
                loc.check_at(&format!("{name}/convenience_methods"), ok && conv, || format!("{}: serialize_compressed/uncompressed or deserialize_* differ from the with_mode forms", what()));
            }));
        }
    }
    (cases, notes)
}

enum TeRepr<P: TECurveConfig> {
    Aff(te::Affine<P>),
    Proj(te::Projective<P>),
}
fn te_lib_proj<P: TECurveConfig>(p: &(P::BaseField, P::BaseField), z: P::BaseField) -> te::Projective<P> {
    te::Projective::new_unchecked(p.0 * z, p.1 * z, p.0 * p.1 * z, z)
}
fn te_same_proj<P: TECurveConfig>(q: &te::Projective<P>, v: &(P::BaseField, P::BaseField)) -> bool {
    !q.z.is_zero() && q.x == v.0 * q.z && q.y == v.1 * q.z && q.t * q.z == q.x * q.y
}

fn te_shipped_cases<P: TECurveConfig>(name: &'static str) -> (Vec<Case>, Vec<String>)
where
    P::ScalarField: PrimeField,
{
    let mut notes = Vec::new();
    let m = std::sync::Arc::new(Big::of::<P::BaseField>());
    let (a, d) = (P::COEFF_A, P::COEFF_D);
    let r = from_limbs(<P::ScalarField as PrimeField>::MODULUS.as_ref());
    let one = P::BaseField::one();
    let zero = P::BaseField::zero();
    let g = (P::GENERATOR.x, P::GENERATOR.y);
    if !te_on_curve(&a, &d, &g) {
        notes.push(format!("{name}: generator not on the curve by the oracle equation"));
    }
    let neg = |p: &(P::BaseField, P::BaseField)| (-p.0, p.1);
    let mut named: Vec<(String, (P::BaseField, P::BaseField), bool)> = vec![("O=(0,1)".into(), (zero, one), true), ("(0,-1)".into(), (zero, -one), false), ("G".into(), g, true), ("-G".into(), neg(&g), true)];
    match (te_add(&a, &d, &g, &g), te_mul(&a, &d, &g, &(&r - 1u32))) {
        (Some(g2), Some(gm)) => {
            if gm != neg(&g) {
                notes.push(format!("{name}: (r-1)G != -G by the oracle law"));
            }
            named.push(("2G".into(), g2, true));
            named.push(("-2G".into(), neg(&g2), true));
            named.push(("(r-1)G".into(), gm, true));
        }
        _ => notes.push(format!("{name}: oracle Edwards law undefined on multiples of G")),
    }
    // (0,-1) has order 2: outside the odd prime-order subgroup
    if te_add(&a, &d, &(zero, -one), &(zero, -one)) != Some((zero, one)) {
        notes.push(format!("{name}: (0,-1) is not of order 2 by the oracle law"));
    }
    // first curve point outside the subgroup from y = 2, 3, ...
    for i in 2u64..200 {
        let y = P::BaseField::from(i);
        let y2 = y.square();
        let den = a - d * y2;
        let Some(di) = den.inverse() else { continue };
        if let Some(x) = ((one - y2) * di).sqrt() {
            let n = (x, y);
            if te_on_curve(&a, &d, &n) {
                match te_mul(&a, &d, &n, &r) {
                    Some(q) if q != (zero, one) => {
                        named.push((format!("N(y={i})"), n, false));
                        named.push((format!("-N(y={i})"), neg(&n), false));
                        break;
                    }
                    _ => {}
                }
            }
        }
    }
    let gen_z: P::BaseField = generic_elem();
    let two = P::BaseField::from(2u64);
    let mut items: Vec<(String, TeRepr<P>, (P::BaseField, P::BaseField), bool)> = Vec::new();
    for (l, v, s) in &named {
        items.push((l.clone(), TeRepr::Aff(te::Affine::new_unchecked(v.0, v.1)), *v, *s));
        items.push((format!("{l}/proj z=1"), TeRepr::Proj(te_lib_proj::<P>(v, one)), *v, *s));
        items.push((format!("{l}/proj z=2"), TeRepr::Proj(te_lib_proj::<P>(v, two)), *v, *s));
        items.push((format!("{l}/proj z=generic"), TeRepr::Proj(te_lib_proj::<P>(v, gen_z)), *v, *s));
    }
    let mut cases: Vec<Case> = Vec::new();
    for (label, repr, val, in_sub) in items {
        let repr = std::sync::Arc::new(repr);
        for mode in 0..4usize {
            let (m, repr, label) = (m.clone(), repr.clone(), label.clone());
            cases.push(Box::new(move |loc: &mut Loc| {
                let (cm, vm) = MODES[mode];
                let want = te_big_bytes(&m, &val, cm == Compress::Yes);
                let what = || format!("{name} {label} {}", mode_name(mode));
                loc.class_if(val == (P::BaseField::zero(), P::BaseField::one()), "identity");
                loc.class_if(val.0.is_zero(), "x=0_tie");
                loc.class_if(!val.0.is_zero() && is_larger(&m, &val.0), "x>-x");
                loc.class_if(!val.0.is_zero() && !is_larger(&m, &val.0), "x<-x");
                loc.class_if(label.contains("z=2") || label.contains("z=generic"), "proj_z!=1");
                loc.class_if(!in_sub, "point_outside_subgroup");
                loc.class_if(m.llen(1) > m.blen(), "flags_spill_to_extra_byte");
                loc.class(SPARE[m.spare()]);
                if loc.sampling() {
                    loc.sample(format!("{} model bytes {}", what(), hexs(&want)));
                }
                let model = want;
                let want = match &*repr {
                    TeRepr::Aff(p) => check_ser(loc, &format!("{name}/affine_serialize"), &what, p, cm, &model),
                    TeRepr::Proj(p) => check_ser(loc, &format!("{name}/projective_serialize"), &what, p, cm, &model),
                };
                // round trip from the bytes that were written
                let mut ext = want.clone();
                ext.push(0xa5);
                let mut rd = CountReader::new(&ext);
                let ga = te::Affine::<P>::deserialize_with_mode(&mut rd, cm, vm);
                let pos_a = rd.pos;
                let mut rd = CountReader::new(&ext);
                let gp = te::Projective::<P>::deserialize_with_mode(&mut rd, cm, vm);
                let pos_p = rd.pos;
                let expect_ok = vm == Validate::No || in_sub;
                if !expect_ok {
                    observe_checked_outside(loc, ga.is_err(), gp.is_err());
                }
                if expect_ok || ga.is_ok() {
                    loc.check_at(&format!("{name}/affine_deserialize"), matches!(&ga, Ok(p) if p.x == val.0 && p.y == val.1) && pos_a == want.len(), || {
                        format!("{}: bytes {} read back as {:?}, consumed {pos_a} of {}", what(), hexs(&want), ga.as_ref().map_err(|e| e.to_string()), want.len())
                    });
                }
                if expect_ok || gp.is_ok() {
                    loc.check_at(&format!("{name}/projective_deserialize"), matches!(&gp, Ok(p) if te_same_proj(p, &val)) && pos_p == want.len(), || {
                        format!("{}: bytes {} read back as {:?}, consumed {pos_p} of {}", what(), hexs(&want), gp.as_ref().map_err(|e| e.to_string()), want.len())
                    });
                }
                let (mut v1, mut v2) = (Vec::new(), Vec::new());
                let ok = match &*repr {
                    TeRepr::Aff(p) => p.serialize_compressed(&mut v1).is_ok() && p.serialize_uncompressed(&mut v2).is_ok(),
                    TeRepr::Proj(p) => p.serialize_compressed(&mut v1).is_ok() && p.serialize_uncompressed(&mut v2).is_ok(),
                };
                let conv = match mode {
                    0 => v1 == want && te::Affine::<P>::deserialize_compressed(&v1[..]).ok() == ga.ok(),
                    1 => v1 == want && te::Affine::<P>::deserialize_compressed_unchecked(&v1[..]).ok() == ga.ok(),
                    2 => v2 == want && te::Affine::<P>::deserialize_uncompressed(&v2[..]).ok() == ga.ok(),
                    _ => v2 == want && te::Affine::<P>::deserialize_uncompressed_unchecked(&v2[..]).ok() == ga.ok(),
                };
                loc.check_at(&format!("{name}/convenience_methods"), ok && conv, || format!("{}: serialize_compressed/uncompressed or deserialize_* differ from the with_mode forms", what()));
            }));
        }
    }
    (cases, notes)
}

/// build the case lists of all shipped curves on their own threads, then run them as one sweep
fn shipped_points(ctx: &mut Ctx) {
    type Prep = Box<dyn FnOnce() -> (Vec<Case>, Vec<String>) + Send>;
    let mut preps: Vec<Prep> = Vec::new();
    macro_rules! swc {
        ($P:ty, $n:expr) => {
            preps.push(Box::new(|| sw_shipped_cases::<$P>($n, Fmt::Default)));
        };
        ($P:ty, $n:expr, zcash) => {
            preps.push(Box::new(|| sw_shipped_cases::<$P>($n, Fmt::Zcash)));
        };
    }
    macro_rules! tec {
        ($P:ty, $n:expr) => {
            preps.push(Box::new(|| te_shipped_cases::<$P>($n)));
        };
    }
    swc!(ark_bls12_381::g1::Config, "bls12_381/g1", zcash);
    swc!(ark_bls12_381::g2::Config, "bls12_381/g2", zcash);
    swc!(ark_bls12_377::g1::Config, "bls12_377/g1");
    swc!(ark_bls12_377::g2::Config, "bls12_377/g2");
    swc!(ark_bn254::g1::Config, "bn254/g1");
    swc!(ark_bn254::g2::Config, "bn254/g2");
    swc!(ark_bw6_761::g1::Config, "bw6_761/g1");
    swc!(ark_bw6_761::g2::Config, "bw6_761/g2");
    swc!(ark_bw6_767::g1::Config, "bw6_767/g1");
    swc!(ark_bw6_767::g2::Config, "bw6_767/g2");
    swc!(ark_cp6_782::g1::Config, "cp6_782/g1");
    swc!(ark_cp6_782::g2::Config, "cp6_782/g2");
    swc!(ark_mnt4_298::g1::Config, "mnt4_298/g1");
    swc!(ark_mnt4_298::g2::Config, "mnt4_298/g2");
    swc!(ark_mnt4_753::g1::Config, "mnt4_753/g1");
    swc!(ark_mnt4_753::g2::Config, "mnt4_753/g2");
    swc!(ark_mnt6_298::g1::Config, "mnt6_298/g1");
    swc!(ark_mnt6_298::g2::Config, "mnt6_298/g2");
    swc!(ark_mnt6_753::g1::Config, "mnt6_753/g1");
    swc!(ark_mnt6_753::g2::Config, "mnt6_753/g2");
    swc!(ark_pallas::PallasConfig, "pallas");
    swc!(ark_vesta::VestaConfig, "vesta");
    swc!(ark_grumpkin::GrumpkinConfig, "grumpkin");
    swc!(ark_secp256k1::Config, "secp256k1");
    swc!(ark_secp256r1::Config, "secp256r1");
    swc!(ark_secp384r1::Config, "secp384r1");
    swc!(ark_secq256k1::Config, "secq256k1");
    swc!(ark_ed_on_bls12_381::JubjubConfig, "ed_on_bls12_381/jubjub(sw)");
    swc!(ark_ed_on_bls12_381_bandersnatch::BandersnatchConfig, "bandersnatch(sw)");
    swc!(ark_test_curves::bls12_381::g1::Config, "test/bls12_381/g1");
    swc!(ark_test_curves::bls12_381::g2::Config, "test/bls12_381/g2");
    swc!(ark_test_curves::mnt4_753::g1::Config, "test/mnt4_753/g1");
    swc!(ark_test_curves::bn384_small_two_adicity::g1::Config, "test/bn384/g1");
    swc!(ark_test_curves::secp256k1::Config, "test/secp256k1");
    tec!(ark_ed_on_bls12_381::JubjubConfig, "ed_on_bls12_381/jubjub");
    tec!(ark_ed_on_bls12_381_bandersnatch::BandersnatchConfig, "bandersnatch");
    tec!(ark_ed_on_bls12_377::EdwardsConfig, "ed_on_bls12_377");
    tec!(ark_ed_on_bn254::EdwardsConfig, "ed_on_bn254");
    tec!(ark_ed_on_cp6_782::EdwardsConfig, "ed_on_cp6_782(=ed_on_bw6_761)");
    tec!(ark_ed_on_mnt4_298::EdwardsConfig, "ed_on_mnt4_298");
    tec!(ark_ed_on_mnt4_753::EdwardsConfig, "ed_on_mnt4_753");
    tec!(ark_curve25519::Curve25519Config, "curve25519");
    tec!(ark_ed25519::EdwardsConfig, "ed25519");
    tec!(ark_bls12_377::g1::Config, "bls12_377/g1(te)");
    tec!(ark_test_curves::ed_on_bls12_381::EdwardsConfig, "test/ed_on_bls12_381");
    let ncurves = preps.len();
    let results: Vec<(Vec<Case>, Vec<String>)> = std::thread::scope(|s| {
        let hs: Vec<_> = preps.into_iter().map(|f| s.spawn(f)).collect();
        hs.into_iter().map(|h| h.join().expect("building the shipped-curve cases panicked")).collect()
    });
    let mut cases: Vec<Case> = Vec::new();
    for (c, notes) in results {
        cases.extend(c);
        for n in notes {
            ctx.machinery_error(format!("shipped-curve oracle self-check: {n}"));
        }
    }
    ctx.bound("points_shipped", format!("{ncurves} shipped curve configurations x {{O (4 forms), G, -G, 2G, -2G, 3G, (r-1)G, first point outside the subgroup (both signs), TE (0,1),(0,-1)}} x {{affine, projective z=1, z=2, z=generic}} x 4 modes"));
    ctx.sweep("points_shipped", cases.len() as u64, |i, loc| cases[i as usize](loc));
}

// @@NEXT@@

fn main() {
    let mut ctx = Ctx::from_args("C09");
    ctx.require(&[
        "flags_spill_to_extra_byte",
        "flags_spill_to_extra_byte(multi_limb)",
        "flags_spill_to_extra_byte(single_limb)",
        "int_differs_from_p_in_one_upper_limb(<p,accepted)",
        "int_differs_from_p_in_one_upper_limb(>=p,rejected)",
        "spare_bits_0",
        "spare_bits_1",
        "spare_bits_2",
        "spare_bits_3",
        "spare_bits_4",
        "spare_bits_5",
        "spare_bits_6",
        "spare_bits_7",
        "bytes_int>=p_rejected",
        "stray_flag_bit_rejected",
        "illegal_flag_pattern_rejected",
        "y=0_tie",
        "x=0_tie",
        "identity",
        "identity_junk_coordinates",
        "short_input",
        "extension_field",
        "zcash_format",
        "point_outside_subgroup",
        "proj_z!=1",
        // points of toy curves over quadratic extension fields
        "ext:identity",
        "ext:identity_junk_coordinates",
        "ext:y=0_tie",
        "ext:y>-y_decided_by_c1",
        "ext:y>-y_decided_by_c0",
        "ext:y<-y",
        "ext:proj_z!=1",
        "ext:proj_z_outside_base_field",
        "ext:point_outside_subgroup",
        "ext:beta=-1",
        "ext:beta!=-1",
        // points of the toy curve over the cubic extension field F_343: sign ties through CubicExtField::cmp
        "ext3:identity",
        "ext3:identity_junk_coordinates",
        "ext3:y=0_tie",
        "ext3:y>-y_decided_by_c2",
        "ext3:y<-y_decided_by_c2",
        "ext3:y>-y_decided_by_c1(c2=0)",
        "ext3:y<-y_decided_by_c1(c2=0)",
        "ext3:y>-y_decided_by_c0(c2=c1=0)",
        "ext3:y<-y_decided_by_c0(c2=c1=0)",
        "ext3:proj_z!=1",
        "ext3:proj_z_outside_base_field",
        "ext3:point_outside_subgroup",
    ]);
    // (the classes observed:point_bytes_* and observed:checked_mode_*_point_outside_subgroup record library behaviour that
    // C09 does not judge; they are deliberately not mandatory)
    ctx.assume("oracle: byte-level format model on u64 / num-bigint (LE integer per base-prime-field coefficient, flags in the top bits of the last byte of the last coefficient; SW = x [|| y] + SWFlags, TE = y + TEFlags | x || y; BLS12-381 = zcash big-endian); element <-> integer conversions (From<u64>, into_bigint) are C01/C02's subject");
    ctx.assume("documented conventions encoded: sign flag = 'y (resp. x) is the lexicographically larger of the two roots' (highest coefficient first); identity is serialized as x = 0 (y = 0) + infinity flag; curve points outside the prime-order subgroup are not group elements of the type: their round trip is demanded in the unchecked modes, while a checked mode may refuse them (C10's claim; observed here as a class) or return exactly the point that was serialized");
    ctx.assume("point encodings: judged = the size reported beforehand equals the bytes written, and deserializing the bytes that were written returns the same point having consumed exactly those bytes; the byte-for-byte comparison with the format model (sign-flag convention, coordinate order) is recorded as the classes observed:point_bytes_* and judged under the site format_pin only when VERIF_EXTRAS=1 (field encodings stay byte-exact: uniqueness is in the property)");
    ctx.assume("uniqueness is demanded for field encodings only (property text); point encodings with redundant forms (infinity flag + non-zero x, TE sign bit with x = 0) are not judged here");
    ctx.bound("field_universe", "toy primes 61,127,251,509,1021,2039,4093,8191,16381,32749,65521 and Fp2 over F_7,F_251 (thorough: F_2039), Fp3 over F_7,F_61 x {EmptyFlags,TEFlags,SWFlags,Flag3,Flag8}: all elements x all flag values; all byte strings of the encoding length when it is <= 3 bytes (thorough: <= 4) and of every shorter length <= 2 (thorough: <= 3)");
    ctx.bound("field_alphabet", "every shipped prime field (deduplicated by modulus) + toy 64/127/128-bit fields + towers Fq2/Fq6/Fq12 (bls12_381), Fq12 (bn254), Fq3/Fq6 (mnt6_298, bw6_761), Fq2/Fq4 (mnt4_298): coefficient vector with <= 1 coordinate replaced by {0,1,2,p-2,p-1,p,p+1,(p+-1)/2,generic,2^bits-1,2^(8 len)-1, every single unused high bit alone and on p-1, p with one non-lowest 64-bit limb replaced by limb+1 / limb-1 / 0 / 2^64-1} x every raw flag pattern; every truncation length");
    ctx.bound("points_toy", "every point of every toy curve (16 SW, 5 TE) x {affine, affine identity with junk coordinates, projective z=1,2,3,p-1,generic, identity with junk X,Y; every z on curves with p <= 130 (thorough: all)} x 4 modes x {Affine, Projective} readers");
    validate_toy_towers(&mut ctx);
    // ---- field elements (E)
    macro_rules! fe {
        ($($F:ty, $n:expr);*) => {$( field_e_all::<$F>(&mut ctx, $n); )*};
    }
    fe!(D61, "D61"; D127, "D127"; D251, "D251"; D509, "D509"; D1021, "D1021"; D2039, "D2039"; D4093, "D4093"; D8191, "D8191"; D16381, "D16381"; D32749, "D32749"; D65521, "D65521");
    fe!(F7x2, "Fp2(D7)"; F251x2, "Fp2(D251)"; F7x3, "Fp3(D7)"; F61x3, "Fp3(D61)");
    if ctx.thorough() {
        fe!(F2039x2, "Fp2(D2039)");
    }
    // ---- field elements (A)
    {
        let mut seen = std::collections::BTreeSet::new();
        algebra_mc::shipped_prime_fields!(shipped_field, &mut ctx, seen);
        // toy fields whose bit length is a multiple of 64 / not enumerable
        shipped_field!(DP64, "toy::DP64", &mut ctx, seen);
        shipped_field!(DGold, "toy::DGold", &mut ctx, seen);
        shipped_field!(DP128, "toy::DP128", &mut ctx, seen);
        shipped_field!(DM127, "toy::DM127", &mut ctx, seen);
        field_a_all::<ark_bls12_381::Fq2>(&mut ctx, "bls12_381::Fq2");
        field_a_all::<ark_bls12_381::Fq6>(&mut ctx, "bls12_381::Fq6");
        field_a_all::<ark_bls12_381::Fq12>(&mut ctx, "bls12_381::Fq12");
        field_a_all::<ark_mnt6_298::Fq3>(&mut ctx, "mnt6_298::Fq3");
        field_a_all::<ark_mnt6_298::Fq6>(&mut ctx, "mnt6_298::Fq6");
        field_a_all::<ark_mnt4_298::Fq2>(&mut ctx, "mnt4_298::Fq2");
        field_a_all::<ark_mnt4_298::Fq4>(&mut ctx, "mnt4_298::Fq4");
        field_a_all::<ark_bn254::Fq12>(&mut ctx, "bn254::Fq12");
        field_a_all::<ark_bw6_761::Fq3>(&mut ctx, "bw6_761::Fq3");
        field_a_all::<ark_bw6_761::Fq6>(&mut ctx, "bw6_761::Fq6");
    }
    // ---- points (E)
    algebra_mc::toy_sw_curves!(toy_sw, &mut ctx);
    algebra_mc::toy_te_curves!(toy_te, &mut ctx);
    // ---- points (E2): toy curves over quadratic extension fields
    ctx.bound("points_ext_toy", "every point of 4 toy curves over F_49 (a = 0: cofactor 4 with 2-torsion; prime order 61), F_25 = F_5[u]/(u^2-2) (a = u, cofactor 2), F_169 = F_13[u]/(u^2-2) (a = u, cofactor 4) x {affine, projective with every Z of F_q^*; identity: affine with junk coordinates, Z = 0 with junk X, Y} x 4 modes x {Affine, Projective} readers");
    sw_ext_points::<SwQ7A0B32>(&mut ctx, "SwQ7A0B32", Fp2Model { p: 7, beta: 6 });
    sw_ext_points::<SwQ7A0B12>(&mut ctx, "SwQ7A0B12", Fp2Model { p: 7, beta: 6 });
    sw_ext_points::<SwQ5AuB11>(&mut ctx, "SwQ5AuB11", Fp2Model { p: 5, beta: 2 });
    sw_ext_points::<SwQ13AuB22>(&mut ctx, "SwQ13AuB22", Fp2Model { p: 13, beta: 2 });
    // ---- points (E3): a toy curve over the cubic extension field F_343
    ctx.bound("points_ext3_toy", "every point of 1 toy curve over F_343 = F_7[u]/(u^3-2) (a = u, b = 1+u+u^2, 366 = 6 * 61 points) x {affine, projective with every Z of F_343^*; identity: affine with junk coordinates, Z = 0 with junk X, Y} x 4 modes x {Affine, Projective} readers");
    sw_ext3_points::<SwC7AuB111>(&mut ctx, "SwC7AuB111", Fp3Model { p: 7, beta: 2 });
    // ---- points (A)
    shipped_points(&mut ctx);
    std::process::exit(ctx.finish());
}
