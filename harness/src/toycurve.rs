//! Glue between the toy curve configurations (toy/gen_curves.rs) and the curve
//! oracle: builds the reference group from the configuration's constants,
//! converts points both ways *through the oracle* (projective coordinates are
//! decoded with model arithmetic, not with the library's into_affine), and
//! self-validates the toy parameters by brute force.
use crate::core::Ctx;
use crate::refmodel::curve::{GroupTable, Pt, SwModel, TeModel};
use crate::refmodel::fieldmodel::{prime_to_u64, FieldModel, PrimeModel};
use crate::refmodel::zmod::is_prime_small;
use crate::toy::gen_curves::CURVE_TABLE;
use ark_ec::short_weierstrass as sw;
use ark_ec::twisted_edwards as te;
use ark_ec::CurveConfig;
use ark_ff::PrimeField;
use std::marker::PhantomData;

fn modulus_u64<F: PrimeField>() -> u64 {
    let m = F::MODULUS;
    let l = m.as_ref();
    assert!(l[1..].iter().all(|x| *x == 0));
    l[0]
}

pub struct SwToy<P: sw::SWCurveConfig> {
    pub name: String,
    pub p: u64,
    pub f: PrimeModel,
    pub m: SwModel<PrimeModel>,
    pub g: GroupTable<u64>,
    /// prime subgroup order (= ScalarField modulus) and cofactor
    pub r: u64,
    pub h: u64,
    /// index of the configured generator
    pub gen: usize,
    /// in_subgroup[i] <=> r * P_i = O (by the oracle)
    pub in_subgroup: Vec<bool>,
    _p: PhantomData<P>,
}

impl<P: sw::SWCurveConfig> SwToy<P>
where
    P::BaseField: PrimeField,
    P::ScalarField: PrimeField,
{
    pub fn new(name: &str) -> Self {
        let p = modulus_u64::<P::BaseField>();
        let f = PrimeModel { p };
        let m = SwModel { f, a: prime_to_u64(&P::COEFF_A), b: prime_to_u64(&P::COEFF_B) };
        let pts = m.points();
        let mm = m.clone();
        let g = GroupTable::build(pts, Pt::O, move |a, b| Some(mm.add(a, b)));
        let r = modulus_u64::<P::ScalarField>();
        let h = P::COFACTOR[0];
        let gen_pt = Pt::A(prime_to_u64(&P::GENERATOR.x), prime_to_u64(&P::GENERATOR.y));
        let gen = *g.index.get(&gen_pt).expect("toy generator not on the curve");
        let in_subgroup = (0..g.n()).map(|i| g.mul(r, i) == Some(g.id)).collect();
        SwToy { name: name.to_string(), p, f, m, g, r, h, gen, in_subgroup, _p: PhantomData }
    }
    /// brute-force validation of the toy parameters (machinery error on failure)
    pub fn validate(&self, ctx: &mut Ctx) {
        let row = CURVE_TABLE.iter().find(|t| t.0 == self.name);
        ctx.validate(row.is_some(), &format!("{}: in CURVE_TABLE", self.name));
        if let Some(t) = row {
            ctx.validate(t.1 == "sw" && t.2 == self.p && t.3 == self.m.a && t.4 == self.m.b, &format!("{}: table coefficients", self.name));
            ctx.validate(t.5 as usize == self.g.n() && t.6 == self.r && t.7 == self.h, &format!("{}: table order {} vs counted {}", self.name, t.5, self.g.n()));
        }
        ctx.validate(is_prime_small(self.p) && is_prime_small(self.r), &format!("{}: p and r prime", self.name));
        ctx.validate(self.g.n() as u64 == self.h * self.r && self.h % self.r != 0, &format!("{}: #E = h*r, r does not divide h", self.name));
        ctx.validate(self.g.order(self.gen) == Some(self.r), &format!("{}: generator has order r", self.name));
        ctx.validate(self.in_subgroup.iter().filter(|b| **b).count() as u64 == self.r, &format!("{}: subgroup has r elements", self.name));
        let hinv = prime_to_u64(&P::COFACTOR_INV);
        ctx.validate((hinv as u128 * self.h as u128) % self.r as u128 == 1 % self.r as u128, &format!("{}: cofactor inverse", self.name));
        // associativity spot check of the oracle law on the first 12 points (the law is textbook; this guards typos)
        let k = self.g.n().min(12);
        let mut ok = true;
        for a in 0..k {
            for b in 0..k {
                for c in 0..k {
                    ok &= self.g.add[self.g.add[a][b]][c] == self.g.add[a][self.g.add[b][c]];
                }
            }
        }
        ctx.validate(ok, &format!("{}: oracle law associative", self.name));
    }
    pub fn n(&self) -> usize {
        self.g.n()
    }
    pub fn fe(&self, x: u64) -> P::BaseField {
        P::BaseField::from(x)
    }
    /// library affine point for oracle point i (identity -> Affine::identity())
    pub fn aff(&self, i: usize) -> sw::Affine<P> {
        match self.g.pts[i] {
            Pt::O => sw::Affine::identity(),
            Pt::A(x, y) => sw::Affine::new_unchecked(self.fe(x), self.fe(y)),
        }
    }
    /// Jacobian representative (x z^2, y z^3, z) of point i, z != 0 (mod p); identity -> (1,1,0)
    pub fn proj(&self, i: usize, z: u64) -> sw::Projective<P> {
        match self.g.pts[i] {
            Pt::O => sw::Projective::new_unchecked(self.fe(1), self.fe(1), self.fe(0)),
            Pt::A(x, y) => {
                let f = &self.f;
                let z = z % self.p;
                assert!(z != 0);
                let z2 = f.mul(z, z);
                sw::Projective::new_unchecked(self.fe(f.mul(x, z2)), self.fe(f.mul(y, f.mul(z2, z))), self.fe(z))
            }
        }
    }
    /// identity with arbitrary (junk) X, Y and Z = 0
    pub fn proj_identity_junk(&self, x: u64, y: u64) -> sw::Projective<P> {
        sw::Projective::new_unchecked(self.fe(x), self.fe(y), self.fe(0))
    }
    /// oracle index of a library affine point (None = not a point of the curve)
    pub fn idx_aff(&self, a: &sw::Affine<P>) -> Option<usize> {
        if a.infinity {
            return Some(self.g.id);
        }
        self.g.index.get(&Pt::A(prime_to_u64(&a.x), prime_to_u64(&a.y))).copied()
    }
    /// oracle index of a library projective point, decoding X/Z^2, Y/Z^3 with model arithmetic
    pub fn idx_proj(&self, q: &sw::Projective<P>) -> Option<usize> {
        let (x, y, z) = (prime_to_u64(&q.x), prime_to_u64(&q.y), prime_to_u64(&q.z));
        if z == 0 {
            return Some(self.g.id);
        }
        let f = &self.f;
        let zi = f.inv(z);
        let zi2 = f.mul(zi, zi);
        self.g.index.get(&Pt::A(f.mul(x, zi2), f.mul(y, f.mul(zi2, zi)))).copied()
    }
    pub fn scalar(&self, k: u64) -> P::ScalarField {
        P::ScalarField::from(k)
    }
}

pub struct TeToy<P: te::TECurveConfig> {
    pub name: String,
    pub p: u64,
    pub f: PrimeModel,
    pub m: TeModel<PrimeModel>,
    pub g: GroupTable<u64>,
    pub r: u64,
    pub h: u64,
    pub gen: usize,
    pub in_subgroup: Vec<bool>,
    /// a is a square and d is a non-square: the affine law is complete on all of E(F_p)
    pub complete: bool,
    _p: PhantomData<P>,
}

impl<P: te::TECurveConfig> TeToy<P>
where
    P::BaseField: PrimeField,
    P::ScalarField: PrimeField,
{
    pub fn new(name: &str) -> Self {
        let p = modulus_u64::<P::BaseField>();
        let f = PrimeModel { p };
        let m = TeModel { f, a: prime_to_u64(&P::COEFF_A), d: prime_to_u64(&P::COEFF_D) };
        let pts = m.points();
        let mm = m.clone();
        let id = m.identity();
        let g = GroupTable::build(pts, id, move |a, b| mm.add(a, b));
        let r = modulus_u64::<P::ScalarField>();
        let h = P::COFACTOR[0];
        let gen_pt = Pt::A(prime_to_u64(&P::GENERATOR.x), prime_to_u64(&P::GENERATOR.y));
        let gen = *g.index.get(&gen_pt).expect("toy generator not on the curve");
        // subgroup = multiples of the generator (well defined also for incomplete parameters)
        let mut in_subgroup = vec![false; g.n()];
        let mut acc = g.id;
        for _ in 0..r {
            in_subgroup[acc] = true;
            acc = g.add[acc][gen];
            assert!(acc != usize::MAX, "oracle law undefined inside the prime-order subgroup");
        }
        let is_sq = |x: u64| x == 0 || f.pow(x, (p - 1) / 2) == 1;
        let complete = is_sq(m.a) && !is_sq(m.d);
        TeToy { name: name.to_string(), p, f, m, g, r, h, gen, in_subgroup, complete, _p: PhantomData }
    }
    pub fn validate(&self, ctx: &mut Ctx) {
        let row = CURVE_TABLE.iter().find(|t| t.0 == self.name);
        ctx.validate(row.is_some(), &format!("{}: in CURVE_TABLE", self.name));
        if let Some(t) = row {
            ctx.validate(t.1 == "te" && t.2 == self.p && t.3 == self.m.a && t.4 == self.m.d, &format!("{}: table coefficients", self.name));
            ctx.validate(t.6 == self.r && t.7 == self.h, &format!("{}: table r, h", self.name));
            if self.complete {
                ctx.validate(t.5 as usize == self.g.n(), &format!("{}: table order {} vs counted affine points {}", self.name, t.5, self.g.n()));
            }
        }
        ctx.validate(is_prime_small(self.p) && is_prime_small(self.r), &format!("{}: p and r prime", self.name));
        ctx.validate(self.g.order(self.gen) == Some(self.r), &format!("{}: generator has order r", self.name));
        ctx.validate(self.in_subgroup.iter().filter(|b| **b).count() as u64 == self.r, &format!("{}: subgroup has r elements", self.name));
        if self.complete {
            ctx.validate(self.g.n() as u64 == self.h * self.r, &format!("{}: #E = h*r", self.name));
            ctx.validate(self.g.add.iter().all(|row| row.iter().all(|x| *x != usize::MAX)), &format!("{}: complete law defined everywhere", self.name));
        }
        let hinv = prime_to_u64(&P::COFACTOR_INV);
        ctx.validate((hinv as u128 * self.h as u128) % self.r as u128 == 1 % self.r as u128, &format!("{}: cofactor inverse", self.name));
    }
    pub fn n(&self) -> usize {
        self.g.n()
    }
    pub fn fe(&self, x: u64) -> P::BaseField {
        P::BaseField::from(x)
    }
    pub fn xy(&self, i: usize) -> (u64, u64) {
        match self.g.pts[i] {
            Pt::A(x, y) => (x, y),
            Pt::O => unreachable!(),
        }
    }
    pub fn aff(&self, i: usize) -> te::Affine<P> {
        let (x, y) = self.xy(i);
        te::Affine::new_unchecked(self.fe(x), self.fe(y))
    }
    /// extended representative (x z, y z, x y z, z), z != 0
    pub fn proj(&self, i: usize, z: u64) -> te::Projective<P> {
        let (x, y) = self.xy(i);
        let f = &self.f;
        let z = z % self.p;
        assert!(z != 0);
        te::Projective::new_unchecked(self.fe(f.mul(x, z)), self.fe(f.mul(y, z)), self.fe(f.mul(f.mul(x, y), z)), self.fe(z))
    }
    pub fn idx_aff(&self, a: &te::Affine<P>) -> Option<usize> {
        self.g.index.get(&Pt::A(prime_to_u64(&a.x), prime_to_u64(&a.y))).copied()
    }
    /// decode X/Z, Y/Z with model arithmetic and also require T = XY/Z (None otherwise)
    pub fn idx_proj(&self, q: &te::Projective<P>) -> Option<usize> {
        let (x, y, t, z) = (prime_to_u64(&q.x), prime_to_u64(&q.y), prime_to_u64(&q.t), prime_to_u64(&q.z));
        if z == 0 {
            return None;
        }
        let f = &self.f;
        let zi = f.inv(z);
        let (ax, ay) = (f.mul(x, zi), f.mul(y, zi));
        if f.mul(t, zi) != f.mul(ax, ay) {
            return None;
        }
        self.g.index.get(&Pt::A(ax, ay)).copied()
    }
    pub fn scalar(&self, k: u64) -> P::ScalarField {
        P::ScalarField::from(k)
    }
}
