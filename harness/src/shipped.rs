//! Registries of shipped configurations (macros calling `$m!(Type, "name" $(, args)*)`).

/// every shipped prime field (duplicates by re-export are harmless; callers dedupe by modulus)
#[macro_export]
macro_rules! shipped_prime_fields {
    ($m:ident $(, $a:expr)*) => {
        $m!(ark_bls12_377::Fq, "bls12_377::Fq" $(, $a)*);
        $m!(ark_bls12_377::Fr, "bls12_377::Fr" $(, $a)*);
        $m!(ark_bls12_381::Fq, "bls12_381::Fq" $(, $a)*);
        $m!(ark_bls12_381::Fr, "bls12_381::Fr" $(, $a)*);
        $m!(ark_bn254::Fq, "bn254::Fq" $(, $a)*);
        $m!(ark_bn254::Fr, "bn254::Fr" $(, $a)*);
        $m!(ark_bw6_761::Fq, "bw6_761::Fq" $(, $a)*);
        $m!(ark_bw6_761::Fr, "bw6_761::Fr" $(, $a)*);
        $m!(ark_bw6_767::Fq, "bw6_767::Fq" $(, $a)*);
        $m!(ark_bw6_767::Fr, "bw6_767::Fr" $(, $a)*);
        $m!(ark_cp6_782::Fq, "cp6_782::Fq" $(, $a)*);
        $m!(ark_cp6_782::Fr, "cp6_782::Fr" $(, $a)*);
        $m!(ark_curve25519::Fq, "curve25519::Fq" $(, $a)*);
        $m!(ark_curve25519::Fr, "curve25519::Fr" $(, $a)*);
        $m!(ark_ed25519::Fq, "ed25519::Fq" $(, $a)*);
        $m!(ark_ed25519::Fr, "ed25519::Fr" $(, $a)*);
        $m!(ark_ed_on_bls12_377::Fq, "ed_on_bls12_377::Fq" $(, $a)*);
        $m!(ark_ed_on_bls12_377::Fr, "ed_on_bls12_377::Fr" $(, $a)*);
        $m!(ark_ed_on_bls12_381::Fq, "ed_on_bls12_381::Fq" $(, $a)*);
        $m!(ark_ed_on_bls12_381::Fr, "ed_on_bls12_381::Fr" $(, $a)*);
        $m!(ark_ed_on_bls12_381_bandersnatch::Fq, "bandersnatch::Fq" $(, $a)*);
        $m!(ark_ed_on_bls12_381_bandersnatch::Fr, "bandersnatch::Fr" $(, $a)*);
        $m!(ark_ed_on_bn254::Fq, "ed_on_bn254::Fq" $(, $a)*);
        $m!(ark_ed_on_bn254::Fr, "ed_on_bn254::Fr" $(, $a)*);
        $m!(ark_ed_on_cp6_782::Fq, "ed_on_cp6_782::Fq" $(, $a)*);
        $m!(ark_ed_on_cp6_782::Fr, "ed_on_cp6_782::Fr" $(, $a)*);
        $m!(ark_ed_on_mnt4_298::Fq, "ed_on_mnt4_298::Fq" $(, $a)*);
        $m!(ark_ed_on_mnt4_298::Fr, "ed_on_mnt4_298::Fr" $(, $a)*);
        $m!(ark_ed_on_mnt4_753::Fq, "ed_on_mnt4_753::Fq" $(, $a)*);
        $m!(ark_ed_on_mnt4_753::Fr, "ed_on_mnt4_753::Fr" $(, $a)*);
        $m!(ark_grumpkin::Fq, "grumpkin::Fq" $(, $a)*);
        $m!(ark_grumpkin::Fr, "grumpkin::Fr" $(, $a)*);
        $m!(ark_mnt4_298::Fq, "mnt4_298::Fq" $(, $a)*);
        $m!(ark_mnt4_298::Fr, "mnt4_298::Fr" $(, $a)*);
        $m!(ark_mnt4_753::Fq, "mnt4_753::Fq" $(, $a)*);
        $m!(ark_mnt4_753::Fr, "mnt4_753::Fr" $(, $a)*);
        $m!(ark_mnt6_298::Fq, "mnt6_298::Fq" $(, $a)*);
        $m!(ark_mnt6_298::Fr, "mnt6_298::Fr" $(, $a)*);
        $m!(ark_mnt6_753::Fq, "mnt6_753::Fq" $(, $a)*);
        $m!(ark_mnt6_753::Fr, "mnt6_753::Fr" $(, $a)*);
        $m!(ark_pallas::Fq, "pallas::Fq" $(, $a)*);
        $m!(ark_pallas::Fr, "pallas::Fr" $(, $a)*);
        $m!(ark_vesta::Fq, "vesta::Fq" $(, $a)*);
        $m!(ark_vesta::Fr, "vesta::Fr" $(, $a)*);
        $m!(ark_secp256k1::Fq, "secp256k1::Fq" $(, $a)*);
        $m!(ark_secp256k1::Fr, "secp256k1::Fr" $(, $a)*);
        $m!(ark_secp256r1::Fq, "secp256r1::Fq" $(, $a)*);
        $m!(ark_secp256r1::Fr, "secp256r1::Fr" $(, $a)*);
        $m!(ark_secp384r1::Fq, "secp384r1::Fq" $(, $a)*);
        $m!(ark_secp384r1::Fr, "secp384r1::Fr" $(, $a)*);
        $m!(ark_secq256k1::Fq, "secq256k1::Fq" $(, $a)*);
        $m!(ark_secq256k1::Fr, "secq256k1::Fr" $(, $a)*);
        $m!(ark_test_curves::bls12_381::Fq, "test::bls12_381::Fq" $(, $a)*);
        $m!(ark_test_curves::bls12_381::Fr, "test::bls12_381::Fr" $(, $a)*);
        $m!(ark_test_curves::mnt4_753::Fq, "test::mnt4_753::Fq" $(, $a)*);
        $m!(ark_test_curves::mnt4_753::Fr, "test::mnt4_753::Fr" $(, $a)*);
        $m!(ark_test_curves::bn384_small_two_adicity::Fq, "test::bn384::Fq" $(, $a)*);
        $m!(ark_test_curves::bn384_small_two_adicity::Fr, "test::bn384::Fr" $(, $a)*);
        $m!(ark_test_curves::secp256k1::Fq, "test::secp256k1::Fq" $(, $a)*);
        $m!(ark_test_curves::secp256k1::Fr, "test::secp256k1::Fr" $(, $a)*);
        $m!(ark_test_curves::ed_on_bls12_381::Fr, "test::ed_on_bls12_381::Fr" $(, $a)*);
        $m!(ark_test_curves::fp128::Fq, "test::fp128::Fq" $(, $a)*);
    };
}
