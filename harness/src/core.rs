//! Exploration core: bounded-exhaustive sweeps over indexable finite spaces,
//! branch-class counters, violation records, known-finding matching, evidence
//! writer.  Every check of every property goes through `Ctx::sweep` (or the
//! stateright glue in `seq.rs`, which reports back into the same `Ctx`).
use serde_json::{json, Value};
use std::collections::BTreeMap;
use std::panic::{catch_unwind, AssertUnwindSafe};
use std::sync::atomic::{AtomicBool, AtomicU64, Ordering};
use std::sync::Mutex;
use std::time::{Duration, Instant};

pub const VERIF_DIR: &str = "/verif";

#[derive(Clone, Debug, PartialEq, Eq, Copy)]
pub enum Tier {
    Quick,
    Thorough,
}

#[derive(Clone, Debug)]
pub struct Violation {
    pub sweep: String,
    pub check: String,
    pub index: u64,
    pub msg: String,
}

/// Per-thread accumulator handed to each case.
pub struct Loc {
    pub classes: BTreeMap<&'static str, u64>,
    pub ops: u64,
    pub validated: u64,
    pub nontrivial: u64,
    pub viol: Vec<Violation>,
    pub samples: Vec<String>,
    cur_check: String,
    cur_index: u64,
    cur_nontrivial: bool,
    cur_failed: bool,
    want_sample: bool,
    viol_cap: usize,
    per_site: BTreeMap<String, usize>,
    pub viol_total: u64,
}

impl Loc {
    fn new(check: &str) -> Self {
        Loc {
            classes: BTreeMap::new(),
            ops: 0,
            validated: 0,
            nontrivial: 0,
            viol: Vec::new(),
            samples: Vec::new(),
            cur_check: check.to_string(),
            cur_index: 0,
            cur_nontrivial: false,
            cur_failed: false,
            want_sample: false,
            viol_cap: 3,
            per_site: BTreeMap::new(),
            viol_total: 0,
        }
    }
    /// Tag the current case as belonging to a (non-default) branch class.  The
    /// label must be computed from inputs / the reference model only.
    #[inline]
    pub fn class(&mut self, name: &'static str) {
        *self.classes.entry(name).or_insert(0) += 1;
        self.cur_nontrivial = true;
    }
    #[inline]
    pub fn class_if(&mut self, cond: bool, name: &'static str) {
        if cond {
            self.class(name)
        }
    }
    /// One implementation operation compared against the model.
    #[inline]
    pub fn op(&mut self) {
        self.ops += 1;
    }
    #[inline]
    pub fn ops(&mut self, n: u64) {
        self.ops += n;
    }
    /// Compare; counts as one operation application.
    #[inline]
    pub fn check(&mut self, ok: bool, msg: impl FnOnce() -> String) -> bool {
        self.ops += 1;
        if !ok {
            self.fail(msg());
        }
        ok
    }
    pub fn check_eq<T: PartialEq + std::fmt::Debug>(
        &mut self,
        got: &T,
        want: &T,
        what: impl FnOnce() -> String,
    ) -> bool {
        self.ops += 1;
        if got != want {
            let w = what();
            self.fail(format!("{w}: got {got:?} want {want:?}"));
            false
        } else {
            true
        }
    }
    pub fn fail(&mut self, msg: String) {
        let site = self.cur_check.clone();
        self.record(site, msg);
    }
    /// keep the first `viol_cap` violations PER SITE (per worker), so that one noisy
    /// site cannot crowd out another
    fn record(&mut self, site: String, msg: String) {
        self.cur_failed = true;
        self.viol_total += 1;
        let c = self.per_site.entry(site.clone()).or_insert(0);
        if *c < self.viol_cap {
            *c += 1;
            self.viol.push(Violation { sweep: self.cur_check.clone(), check: site, index: self.cur_index, msg });
        }
    }
    /// Like `fail` but filed under a sub-check name (call site), so that known
    /// findings can be keyed by call site.
    pub fn fail_at(&mut self, site: &str, msg: String) {
        let site = format!("{}/{}", self.cur_check, site);
        self.record(site, msg);
    }
    pub fn check_at(&mut self, site: &str, ok: bool, msg: impl FnOnce() -> String) -> bool {
        self.ops += 1;
        if !ok {
            self.fail_at(site, msg());
        }
        ok
    }
    #[inline]
    pub fn sampling(&self) -> bool {
        self.want_sample
    }
    pub fn sample(&mut self, s: String) {
        if self.want_sample && self.samples.len() < 4 {
            self.samples.push(s);
        }
    }
    pub fn index(&self) -> u64 {
        self.cur_index
    }
}

pub struct SweepStat {
    pub name: String,
    pub cases: u64,
    pub planned: u64,
    pub complete: bool,
    pub wall_s: f64,
}

pub struct Ctx {
    pub property: String,
    pub tier: Tier,
    pub seed: i64,
    pub start: Instant,
    pub deadline: Instant,
    pub replay: Option<(String, u64)>,
    pub only: Option<String>,
    pub classes: BTreeMap<String, u64>,
    pub required: Vec<(String, bool)>, // (class, thorough_only)
    pub states: u64,
    pub transitions: u64,
    pub validated: u64,
    pub nontrivial: u64,
    pub violations: Vec<Violation>,
    pub viol_total: u64,
    pub samples: Vec<Value>,
    pub sweeps: Vec<SweepStat>,
    pub assumptions: Vec<String>,
    pub bounds: BTreeMap<String, Value>,
    pub capped: bool,
    pub threads: usize,
    pub machinery_errors: Vec<String>,
    /// evidence file stem (defaults to the property id)
    pub evidence_name: String,
    /// the quick tier of this check uses the thorough tier's bounds (cheap checks)
    pub promoted: bool,
    /// a single case that runs longer than this is reported as a violation (hang)
    pub case_timeout_s: u64,
}

fn panic_msg(p: Box<dyn std::any::Any + Send>) -> String {
    if let Some(s) = p.downcast_ref::<&str>() {
        s.to_string()
    } else if let Some(s) = p.downcast_ref::<String>() {
        s.clone()
    } else {
        "<non-string panic>".to_string()
    }
}

thread_local! {
    pub static LAST_PANIC_LOC: std::cell::RefCell<String> = std::cell::RefCell::new(String::new());
    /// set while a case runs under catch_unwind: panics are results there, noise is suppressed
    pub static QUIET_PANICS: std::cell::Cell<bool> = std::cell::Cell::new(false);
}

impl Ctx {
    pub fn from_args(property: &str) -> Ctx {
        let args: Vec<String> = std::env::args().collect();
        let mut tier = match std::env::var("VERIF_TIER").ok().as_deref() {
            Some("thorough") => Tier::Thorough,
            _ => Tier::Quick,
        };
        let mut replay = None;
        let mut only = None;
        let mut i = 1;
        let mut budget: Option<u64> = None;
        while i < args.len() {
            match args[i].as_str() {
                "--tier" => {
                    tier = if args[i + 1] == "thorough" { Tier::Thorough } else { Tier::Quick };
                    i += 1;
                }
                "--replay" => {
                    let txt = std::fs::read_to_string(&args[i + 1]).expect("replay file");
                    let v: Value = serde_json::from_str(&txt).expect("replay json");
                    let sweep = v["sweep"].as_str().unwrap().to_string();
                    replay = Some((sweep, v["index"].as_u64().unwrap()));
                    i += 1;
                }
                "--only" => {
                    only = Some(args[i + 1].clone());
                    i += 1;
                }
                "--budget-s" => {
                    budget = Some(args[i + 1].parse().unwrap());
                    i += 1;
                }
                _ => {}
            }
            i += 1;
        }
        let seed = std::env::var("VERIF_SEED").ok().and_then(|s| s.parse().ok()).unwrap_or(0);
        let threads = std::env::var("VERIF_THREADS")
            .ok()
            .and_then(|s| s.parse().ok())
            .unwrap_or_else(|| std::thread::available_parallelism().map(|n| n.get()).unwrap_or(8).min(16));
        let start = Instant::now();
        let budget = budget.unwrap_or(match tier {
            Tier::Quick => 1300, // below the driver's 1500 s watchdog; quick tiers need ~10-100 s on an idle machine
            Tier::Thorough => 3 * 3600,
        });
        // library panics are results, not noise
        std::panic::set_hook(Box::new(|info| {
            let loc = info.location().map(|l| format!("{}:{}", l.file(), l.line())).unwrap_or_default();
            if !QUIET_PANICS.with(|q| q.get()) {
                eprintln!("MACHINERY-ERROR: harness panic outside a case at {loc}: {info}");
            }
            LAST_PANIC_LOC.with(|c| *c.borrow_mut() = loc);
        }));
        Ctx {
            property: property.to_string(),
            tier,
            seed,
            start,
            deadline: start + Duration::from_secs(budget),
            replay,
            only,
            classes: BTreeMap::new(),
            required: Vec::new(),
            states: 0,
            transitions: 0,
            validated: 0,
            nontrivial: 0,
            violations: Vec::new(),
            viol_total: 0,
            samples: Vec::new(),
            sweeps: Vec::new(),
            assumptions: Vec::new(),
            bounds: BTreeMap::new(),
            capped: false,
            threads,
            machinery_errors: Vec::new(),
            evidence_name: property.to_string(),
            promoted: false,
            case_timeout_s: std::env::var("VERIF_CASE_TIMEOUT").ok().and_then(|v| v.parse().ok()).unwrap_or(match tier {
                Tier::Quick => 300,
                Tier::Thorough => 1800,
            }),
        }
    }
    /// for checks whose thorough bounds are cheap: explore them in the quick tier too
    pub fn promote_quick(&mut self) {
        self.promoted = true;
        self.bounds.insert("quick_tier_uses_thorough_bounds".to_string(), Value::Bool(true));
    }
    pub fn quick(&self) -> bool {
        self.tier == Tier::Quick && !self.promoted
    }
    pub fn thorough(&self) -> bool {
        self.tier == Tier::Thorough || self.promoted
    }
    /// pick by tier
    pub fn t<T>(&self, quick: T, thorough: T) -> T {
        if self.quick() {
            quick
        } else {
            thorough
        }
    }
    pub fn require(&mut self, classes: &[&str]) {
        for c in classes {
            self.required.push((c.to_string(), false));
        }
    }
    pub fn require_thorough(&mut self, classes: &[&str]) {
        for c in classes {
            self.required.push((c.to_string(), true));
        }
    }
    pub fn assume(&mut self, s: &str) {
        self.assumptions.push(s.to_string());
    }
    pub fn bound(&mut self, k: &str, v: impl Into<Value>) {
        self.bounds.insert(k.to_string(), v.into());
    }
    pub fn machinery_error(&mut self, s: String) {
        eprintln!("MACHINERY-ERROR: {s}");
        self.machinery_errors.push(s);
    }
    /// Self-validation of toy parameters etc.  Failure is never a verdict.
    pub fn validate(&mut self, ok: bool, what: &str) {
        if !ok {
            self.machinery_error(format!("self-validation failed: {what}"));
        }
    }

    fn skip(&self, name: &str) -> bool {
        if let Some((c, _)) = &self.replay {
            if !replay_matches(c, name) {
                return true;
            }
        }
        if let Some(o) = &self.only {
            if !name.contains(o.as_str()) {
                return true;
            }
        }
        false
    }

    /// Enumerate every index in `0..n` on all threads, running `f(i, loc)`
    /// under `catch_unwind`.  A panic escaping `f` is a violation of the
    /// current check (library code panicked on an input the property covers).
    pub fn sweep<F>(&mut self, name: &str, n: u64, f: F)
    where
        F: Fn(u64, &mut Loc) + Sync,
    {
        if self.skip(name) {
            return;
        }
        let t0 = Instant::now();
        let (lo, hi) = match &self.replay {
            Some((_, idx)) => (*idx, (*idx + 1).min(n)),
            None => (0, n),
        };
        let next = AtomicU64::new(lo);
        let stop = AtomicBool::new(false);
        let done = AtomicU64::new(0);
        let nthreads = if hi - lo < 64 { 1 } else { self.threads };
        let chunk = (((hi - lo) / (nthreads as u64 * 64)).max(1)).min(1 << 16);
        let merged: Mutex<Vec<Loc>> = Mutex::new(Vec::new());
        let deadline = self.deadline;
        let sample_a = lo;
        let sample_b = lo + (hi - lo) / 2;
        let sample_c = hi.saturating_sub(1);
        // hang detection: every worker publishes (index + 1, start time in ms) of the case it is running; a
        // monitor thread turns a case that does not return within `case_timeout` (a library routine looping
        // on some input) into a violation: the process cannot unwind a stuck thread, so the violation is
        // reported directly (replay file + VIOLATION line) and the process exits with status 1.
        let t_sweep = Instant::now();
        let cur_idx: Vec<AtomicU64> = (0..nthreads).map(|_| AtomicU64::new(0)).collect();
        let cur_t0: Vec<AtomicU64> = (0..nthreads).map(|_| AtomicU64::new(0)).collect();
        let workers_left = AtomicU64::new(nthreads as u64);
        let (mon_lock, mon_cv) = (Mutex::new(()), std::sync::Condvar::new());
        let case_timeout_ms = self.case_timeout_s * 1000;
        let property = self.property.clone();
        let tier_s = if self.tier == Tier::Quick { "quick" } else { "thorough" };
        std::thread::scope(|s| {
            s.spawn(|| {
                // woken by the last worker (condvar), otherwise every 250 ms: a sweep of 1 ms must not cost 250 ms
                let mut guard = mon_lock.lock().unwrap();
                while workers_left.load(Ordering::SeqCst) > 0 {
                    guard = mon_cv.wait_timeout(guard, Duration::from_millis(250)).unwrap().0;
                    if workers_left.load(Ordering::SeqCst) == 0 {
                        break;
                    }
                    let now = t_sweep.elapsed().as_millis() as u64;
                    for w in 0..nthreads {
                        let idx1 = cur_idx[w].load(Ordering::Relaxed);
                        let t0 = cur_t0[w].load(Ordering::Relaxed);
                        if idx1 != 0 && now.saturating_sub(t0) > case_timeout_ms && cur_idx[w].load(Ordering::Relaxed) == idx1 {
                            report_hang(&property, tier_s, name, idx1 - 1, case_timeout_ms / 1000);
                        }
                    }
                }
            });
            for w in 0..nthreads {
                let (cur_idx, cur_t0, workers_left, next, stop, done, merged, f) = (&cur_idx, &cur_t0, &workers_left, &next, &stop, &done, &merged, &f);
                let (mon_lock, mon_cv) = (&mon_lock, &mon_cv);
                s.spawn(move || {
                    let mut loc = Loc::new(name);
                    QUIET_PANICS.with(|q| q.set(true));
                    loop {
                        if stop.load(Ordering::Relaxed) {
                            break;
                        }
                        let a = next.fetch_add(chunk, Ordering::Relaxed);
                        if a >= hi {
                            break;
                        }
                        let b = (a + chunk).min(hi);
                        for i in a..b {
                            loc.cur_index = i;
                            loc.cur_nontrivial = false;
                            loc.cur_failed = false;
                            loc.want_sample = i == sample_a || i == sample_b || i == sample_c;
                            cur_t0[w].store(t_sweep.elapsed().as_millis() as u64, Ordering::Relaxed);
                            cur_idx[w].store(i + 1, Ordering::Relaxed);
                            let r = catch_unwind(AssertUnwindSafe(|| f(i, &mut loc)));
                            cur_idx[w].store(0, Ordering::Relaxed);
                            if let Err(p) = r {
                                let at = LAST_PANIC_LOC.with(|c| c.borrow().clone());
                                loc.fail_at("panic", format!("panic at {at}: {}", panic_msg(p)));
                            }
                            if loc.cur_nontrivial {
                                loc.nontrivial += 1;
                            }
                            if !loc.cur_failed {
                                loc.validated += 1;
                            }
                        }
                        done.fetch_add(b - a, Ordering::Relaxed);
                        if Instant::now() > deadline {
                            stop.store(true, Ordering::Relaxed);
                        }
                    }
                    merged.lock().unwrap().push(loc);
                    if workers_left.fetch_sub(1, Ordering::SeqCst) == 1 {
                        let _g = mon_lock.lock().unwrap();
                        mon_cv.notify_all();
                    }
                });
            }
        });
        let cases = done.load(Ordering::Relaxed);
        let complete = cases == hi - lo;
        if !complete {
            self.capped = true;
        }
        let mut locs = merged.into_inner().unwrap();
        let mut viol: Vec<Violation> = Vec::new();
        for l in locs.iter_mut() {
            for (k, v) in &l.classes {
                *self.classes.entry(k.to_string()).or_insert(0) += v;
            }
            self.transitions += l.ops;
            self.validated += l.validated;
            self.nontrivial += l.nontrivial;
            self.viol_total += l.viol_total;
            viol.append(&mut l.viol);
            for s in l.samples.drain(..) {
                if self.samples.len() < 60 {
                    self.samples.push(json!({"check": name, "case": s}));
                }
            }
        }
        viol.sort_by(|a, b| (a.index, &a.check).cmp(&(b.index, &b.check)));
        // keep the lowest-index violations per site
        let mut per_site: BTreeMap<String, usize> = BTreeMap::new();
        for v in viol {
            let c = per_site.entry(v.check.clone()).or_insert(0);
            if *c < 5 {
                *c += 1;
                self.violations.push(v);
            }
        }
        self.states += cases;
        self.sweeps.push(SweepStat {
            name: name.to_string(),
            cases,
            planned: hi - lo,
            complete,
            wall_s: t0.elapsed().as_secs_f64(),
        });
    }

    /// Sequential variant for checks whose cases are heavyweight objects that
    /// are not worth indexing (each call is one case).
    pub fn single<F>(&mut self, name: &str, f: F)
    where
        F: Fn(&mut Loc) + Sync,
    {
        self.sweep(name, 1, |_, loc| f(loc));
    }

    /// Record results of an external explorer (stateright) into the evidence.
    pub fn add_explored(&mut self, name: &str, states: u64, transitions: u64, validated: u64, complete: bool, wall_s: f64) {
        self.states += states;
        self.transitions += transitions;
        self.validated += validated;
        if !complete {
            self.capped = true;
        }
        self.sweeps.push(SweepStat { name: name.to_string(), cases: states, planned: states, complete, wall_s });
    }
    pub fn add_class(&mut self, name: &str, n: u64) {
        *self.classes.entry(name.to_string()).or_insert(0) += n;
    }
    pub fn add_nontrivial(&mut self, n: u64) {
        self.nontrivial += n;
    }
    pub fn add_violation(&mut self, check: &str, index: u64, msg: String) {
        self.viol_total += 1;
        let sweep = check.split('/').next().unwrap_or(check).to_string();
        self.violations.push(Violation { sweep, check: check.to_string(), index, msg });
    }
    pub fn add_violation_in(&mut self, sweep: &str, check: &str, index: u64, msg: String) {
        self.viol_total += 1;
        self.violations.push(Violation { sweep: sweep.to_string(), check: check.to_string(), index, msg });
    }
    pub fn add_sample(&mut self, check: &str, s: String) {
        if self.samples.len() < 60 {
            self.samples.push(json!({"check": check, "case": s}));
        }
    }

    /// Write evidence, print KNOWN-FINDING / VIOLATION lines, return exit code.
    pub fn finish(mut self) -> i32 {
        let wall = self.start.elapsed().as_secs_f64();
        // known findings
        let kf_path = format!("{VERIF_DIR}/known_findings.json");
        let kf: Value = std::fs::read_to_string(&kf_path)
            .ok()
            .and_then(|t| serde_json::from_str(&t).ok())
            .unwrap_or(json!({"findings": [], "fixed": []}));
        let findings: Vec<Value> = kf["findings"]
            .as_array()
            .cloned()
            .unwrap_or_default()
            .into_iter()
            .filter(|f| f["property"].as_str() == Some(self.property.as_str()))
            .collect();
        let mut known_hits: BTreeMap<usize, u64> = BTreeMap::new();
        let mut fresh: Vec<Violation> = Vec::new();
        for v in &self.violations {
            let mut matched = None;
            for (k, f) in findings.iter().enumerate() {
                let site_ok = f["check"].as_str().map(|c| v.check == c || v.check.starts_with(&format!("{c}/"))).unwrap_or(false);
                let case_ok = match f["msg_contains"].as_array() {
                    Some(list) => list.iter().all(|s| v.msg.contains(s.as_str().unwrap_or("\u{0}"))),
                    None => true,
                };
                if site_ok && case_ok {
                    matched = Some(k);
                    break;
                }
            }
            match matched {
                Some(k) => *known_hits.entry(k).or_insert(0) += 1,
                None => fresh.push(v.clone()),
            }
        }
        // vacuity
        let mut missing = Vec::new();
        if self.replay.is_none() && self.only.is_none() {
            for (c, thorough_only) in &self.required {
                if *thorough_only && self.tier == Tier::Quick && !self.promoted {
                    continue;
                }
                if self.classes.get(c).copied().unwrap_or(0) == 0 {
                    missing.push(c.clone());
                }
            }
        }
        let exhaustive = !self.capped;
        let sweeps: Vec<Value> = self
            .sweeps
            .iter()
            .map(|s| json!({"name": s.name, "cases": s.cases, "planned": s.planned, "complete": s.complete, "wall_s": (s.wall_s*1000.0).round()/1000.0}))
            .collect();
        if self.samples.is_empty() {
            self.samples.push(json!({"note": "no sample recorded"}));
        }
        let viol_json: Vec<Value> = self
            .violations
            .iter()
            .take(50)
            .map(|v| json!({"sweep": v.sweep, "check": v.check, "index": v.index, "msg": v.msg}))
            .collect();
        let ev = json!({
            "property_id": self.property,
            "tier": if self.tier == Tier::Quick {"quick"} else {"thorough"},
            "seed": self.seed,
            "level": "model_checking",
            "coverage": {
                "states": self.states,
                "transitions": self.transitions,
                "traces_validated_against_impl": self.validated,
                "evaluations": self.states,
                "distinct_nontrivial": self.nontrivial,
                "rule": "every index of every listed finite space is visited exactly once (distinct by construction); states = cases enumerated (+ unique states of sequence models), transitions = implementation operations compared with the reference model, traces_validated = cases whose complete reference-model trace was reproduced by the implementation; a case is non-trivial when the reference model assigns it to at least one named branch class",
                "exhaustive": exhaustive,
                "samples": self.samples,
                "branch_classes": self.classes,
                "bounds": self.bounds,
                "spaces": sweeps,
                "seed_note": "VERIF_SEED is recorded but unused: no check draws random values",
            },
            "assumptions": self.assumptions,
            "wall_s": (wall*1000.0).round()/1000.0,
            // violations that are NOT covered by an entry of known_findings.json (these make the run exit 1); hits of
            // listed findings are under known_finding_hits, the raw number of failing cases under failing_cases_total
            "violations": fresh.len(),
            "failing_cases_total": self.viol_total,
            "violation_records": viol_json,
            "known_finding_hits": known_hits.iter().map(|(k,n)| json!({"finding": findings[*k]["id"], "hits": n})).collect::<Vec<_>>(),
            "vacuous_classes_missing": missing,
            "machinery_errors": self.machinery_errors,
        });
        // (development runs against a scratch copy of /repo must not overwrite the evidence)
        if self.replay.is_none() && self.only.is_none() && std::env::var("VERIF_NO_EVIDENCE").is_err() {
            let path = format!("{VERIF_DIR}/evidence/{}.json", self.evidence_name);
            let _ = std::fs::create_dir_all(format!("{VERIF_DIR}/evidence"));
            std::fs::write(&path, serde_json::to_string_pretty(&ev).unwrap()).expect("write evidence");
        }
        println!(
            "[{}] tier={:?} states={} transitions={} validated={} nontrivial={} exhaustive={} wall={:.1}s violations={}",
            self.property, self.tier, self.states, self.transitions, self.validated, self.nontrivial, exhaustive, wall, fresh.len()
        );
        if self.viol_total as usize != fresh.len() {
            println!("    ({} failing cases in total, {} of the recorded ones not covered by a listed known finding)", self.viol_total, fresh.len());
        }
        for s in &self.sweeps {
            println!("    space {:<44} cases={:<12} complete={} {:.2}s", s.name, s.cases, s.complete, s.wall_s);
        }
        for (k, n) in &known_hits {
            let f = &findings[*k];
            println!(
                "KNOWN-FINDING: property={} {} [{}; {} recorded cases]",
                self.property,
                f["what"].as_str().unwrap_or(""),
                f["id"].as_str().unwrap_or(""),
                n
            );
        }
        if !self.machinery_errors.is_empty() {
            return 2;
        }
        if !fresh.is_empty() {
            let _ = std::fs::create_dir_all(format!("{VERIF_DIR}/replays"));
            let mut seen_sites = std::collections::BTreeSet::new();
            for v in fresh.iter() {
                if !seen_sites.insert(v.check.clone()) {
                    continue;
                }
                let fname = format!(
                    "{VERIF_DIR}/replays/{}-{}-{}.json",
                    self.property,
                    v.check.replace(['/', ' ', ':'], "_"),
                    v.index
                );
                let rec = json!({"property": self.property, "sweep": v.sweep, "check": v.check, "index": v.index, "msg": v.msg,
                    "tier": if self.tier == Tier::Quick {"quick"} else {"thorough"}});
                let _ = std::fs::write(&fname, serde_json::to_string_pretty(&rec).unwrap());
                let short: String = v.msg.chars().take(700).collect();
                println!("  violation: check={} index={} {}", v.check, v.index, short);
                println!("VIOLATION property={} replay={}", self.property, fname);
            }
            return 1;
        }
        if !missing.is_empty() {
            eprintln!("MACHINERY-ERROR: vacuous run, mandatory branch classes with 0 hits: {missing:?}");
            return 2;
        }
        0
    }
}

/// A case did not return: report it as a violation of the current property and leave (the stuck thread
/// cannot be unwound).  The replay file re-runs exactly this case, which hangs - and is reported - again.
pub fn report_hang(property: &str, tier: &str, sweep: &str, index: u64, secs: u64) -> ! {
    let _ = std::fs::create_dir_all(format!("{VERIF_DIR}/replays"));
    let fname = format!("{VERIF_DIR}/replays/{}-{}-hang-{}.json", property, sweep.replace(['/', ' ', ':'], "_"), index);
    let msg = format!("case did not return within {secs} s: a library routine is looping on this input (or slower by orders of magnitude)");
    let rec = json!({"property": property, "sweep": sweep, "check": format!("{sweep}/hang"), "index": index, "msg": msg, "tier": tier});
    let _ = std::fs::write(&fname, serde_json::to_string_pretty(&rec).unwrap());
    println!("  violation: check={sweep}/hang index={index} {msg}");
    println!("VIOLATION property={property} replay={fname}");
    std::process::exit(1);
}

/// does the sweep recorded in a replay file designate the sweep `name`?  (violations
/// recorded outside a sweep only know a prefix of the sweep name)
pub fn replay_matches(recorded: &str, name: &str) -> bool {
    recorded == name || name.starts_with(&format!("{recorded}/"))
}

/// Mixed-radix decode: i -> digits with the given radices (first digit fastest).
#[inline]
pub fn unrank<const K: usize>(mut i: u64, radices: [u64; K]) -> [u64; K] {
    let mut out = [0u64; K];
    for k in 0..K {
        out[k] = i % radices[k];
        i /= radices[k];
    }
    out
}
pub fn unrank_vec(mut i: u64, radices: &[u64]) -> Vec<u64> {
    let mut out = Vec::with_capacity(radices.len());
    for r in radices {
        out.push(i % r);
        i /= r;
    }
    out
}
pub fn product(radices: &[u64]) -> u64 {
    radices.iter().product()
}

/// All vectors of length `len` obtained from `base` by replacing at most `d`
/// coordinates with members of `alphabet` (the "deviation ball").
pub fn deviation_ball<T: Clone + PartialEq>(base: &[T], alphabet: &[T], d: usize) -> Vec<Vec<T>> {
    let mut out: Vec<Vec<T>> = vec![base.to_vec()];
    fn rec<T: Clone + PartialEq>(cur: &mut Vec<T>, start: usize, left: usize, base: &[T], alphabet: &[T], out: &mut Vec<Vec<T>>) {
        if left == 0 {
            return;
        }
        for pos in start..base.len() {
            for a in alphabet {
                if *a == base[pos] {
                    continue;
                }
                let old = cur[pos].clone();
                cur[pos] = a.clone();
                out.push(cur.clone());
                rec(cur, pos + 1, left - 1, base, alphabet, out);
                cur[pos] = old;
            }
        }
    }
    let mut cur = base.to_vec();
    rec(&mut cur, 0, d, base, alphabet, &mut out);
    out
}

pub fn dedup_sorted<T: Ord + Clone>(mut v: Vec<T>) -> Vec<T> {
    v.sort();
    v.dedup();
    v
}

pub const L10: [u64; 10] = [
    0,
    1,
    2,
    1 << 31,
    (1 << 32) - 1,
    1 << 32,
    (1 << 63) - 1,
    1 << 63,
    u64::MAX - 1,
    u64::MAX,
];
pub const L4: [u64; 4] = [0, 1, 1 << 63, u64::MAX];
pub const L2: [u64; 2] = [0, u64::MAX];
pub const GENERIC64: u64 = 0x9e37_79b9_7f4a_7c15;
