//! Shape S: explicit-state exploration (stateright BFS) of operation sequences
//! where each transition calls the real implementation next to the reference
//! model.  The state is (depth, value) with `value` carrying both the
//! implementation snapshot and the model value; the invariant "impl == model
//! and canonical" is evaluated by the transition function on every generated
//! state, violating states are recorded and not expanded further.
use crate::core::Ctx;
use stateright::{Checker, Model, Property};
use std::fmt::Debug;
use std::hash::Hash;
use std::panic::{catch_unwind, AssertUnwindSafe};
use std::sync::{Arc, Mutex};
use std::time::Instant;

#[derive(Clone, Debug, Hash, PartialEq, Eq)]
pub struct SeqState<V> {
    pub depth: u8,
    pub v: V,
    pub bad: bool,
}

pub type StepFn<V> = Box<dyn Fn(&V, usize) -> Result<Option<V>, String> + Send + Sync + 'static>;

pub struct SeqModel<V> {
    pub name: String,
    pub init: Vec<V>,
    pub n_actions: usize,
    pub max_depth: u8,
    /// Ok(Some(v')) = next state; Ok(None) = action not enabled; Err = violation
    pub step: StepFn<V>,
    pub action_name: Box<dyn Fn(usize) -> String + Send + Sync + 'static>,
    pub violations: Arc<Mutex<Vec<(String, String)>>>, // (site, message)
    pub transitions: Arc<std::sync::atomic::AtomicU64>,
}

impl<V: Clone + Debug + Hash + Eq + Send + Sync + 'static> Model for SeqModel<V> {
    type State = SeqState<V>;
    type Action = usize;
    fn init_states(&self) -> Vec<Self::State> {
        self.init.iter().map(|v| SeqState { depth: 0, v: v.clone(), bad: false }).collect()
    }
    fn actions(&self, state: &Self::State, actions: &mut Vec<Self::Action>) {
        if state.bad || state.depth >= self.max_depth {
            return;
        }
        actions.extend(0..self.n_actions);
    }
    fn next_state(&self, last: &Self::State, action: usize) -> Option<Self::State> {
        self.transitions.fetch_add(1, std::sync::atomic::Ordering::Relaxed);
        crate::core::QUIET_PANICS.with(|q| q.set(true));
        let r = catch_unwind(AssertUnwindSafe(|| (self.step)(&last.v, action)));
        crate::core::QUIET_PANICS.with(|q| q.set(false));
        let r = match r {
            Ok(r) => r,
            Err(p) => {
                let m = if let Some(s) = p.downcast_ref::<&str>() {
                    s.to_string()
                } else if let Some(s) = p.downcast_ref::<String>() {
                    s.clone()
                } else {
                    "<panic>".into()
                };
                Err(format!("panic: {m}"))
            }
        };
        match r {
            Ok(Some(v)) => Some(SeqState { depth: last.depth + 1, v, bad: false }),
            Ok(None) => None,
            Err(msg) => {
                let mut g = self.violations.lock().unwrap();
                if g.len() < 200 {
                    g.push((
                        (self.action_name)(action),
                        format!("state(depth {}) {:?} --{}--> {}", last.depth, last.v, (self.action_name)(action), msg),
                    ));
                }
                Some(SeqState { depth: last.depth + 1, v: last.v.clone(), bad: true })
            }
        }
    }
    fn properties(&self) -> Vec<Property<Self>> {
        // Violations are collected by the transition function (so that the
        // search keeps going after the first one); this property only makes the
        // checker visit every state.
        vec![Property::always("explore", |_, _| true)]
    }
}

/// Run the model to completion (all states up to max_depth), twice when cheap,
/// and fold the result into `ctx`.
pub fn run_seq<V: Clone + Debug + Hash + Eq + Send + Sync + 'static>(
    ctx: &mut Ctx,
    name: &str,
    init: Vec<V>,
    n_actions: usize,
    max_depth: u8,
    action_name: impl Fn(usize) -> String + Send + Sync + Clone + 'static,
    step: impl Fn(&V, usize) -> Result<Option<V>, String> + Send + Sync + Clone + 'static,
) {
    if let Some((c, _)) = &ctx.replay {
        if !crate::core::replay_matches(c, name) {
            return;
        }
    }
    if let Some(o) = &ctx.only {
        if !name.contains(o.as_str()) {
            return;
        }
    }
    let case_timeout_s = ctx.case_timeout_s;
    let property = ctx.property.clone();
    let tier_s = if ctx.tier == crate::core::Tier::Quick { "quick" } else { "thorough" };
    let run = |threads: usize| {
        let violations = Arc::new(Mutex::new(Vec::new()));
        let transitions = Arc::new(std::sync::atomic::AtomicU64::new(0));
        let m = SeqModel {
            name: name.to_string(),
            init: init.clone(),
            n_actions,
            max_depth,
            step: Box::new(step.clone()),
            action_name: Box::new(action_name.clone()),
            violations: violations.clone(),
            transitions: transitions.clone(),
        };
        let t0 = Instant::now();
        // poll instead of a blind join: a transition that never returns (a library routine looping on
        // some state) shows up as "no new state generated for case_timeout seconds" and is reported as a
        // violation of the model (the stuck thread cannot be unwound)
        let checker = m.checker().threads(threads).spawn_bfs();
        let (mut last_count, mut last_change) = (0usize, Instant::now());
        while !checker.is_done() {
            std::thread::sleep(std::time::Duration::from_millis(100));
            let c = checker.state_count();
            if c != last_count {
                last_count = c;
                last_change = Instant::now();
            } else if last_change.elapsed().as_secs() > case_timeout_s {
                crate::core::report_hang(&property, tier_s, name, 0, case_timeout_s);
            }
        }
        let checker = checker.join();
        let unique = checker.unique_state_count() as u64;
        let done = checker.is_done();
        let tr = transitions.load(std::sync::atomic::Ordering::Relaxed);
        let v = violations.lock().unwrap().clone();
        (unique, tr, done, v, t0.elapsed().as_secs_f64(), checker.max_depth())
    };
    let (u1, t1, done1, mut viol, w1, maxd) = run(ctx.threads);
    let mut wall = w1;
    if w1 < 15.0 {
        // determinism probe: a second run must reach the same counts
        let (u2, t2, _, v2, w2, _) = run(ctx.threads);
        wall += w2;
        if u1 != u2 || t1 != t2 || viol.len() != v2.len() {
            ctx.machinery_error(format!(
                "sequence model {name}: two runs disagree (unique {u1} vs {u2}, transitions {t1} vs {t2}) - uncontrolled nondeterminism"
            ));
        }
    }
    // states whose complete model trace was reproduced by the implementation (every transition into a state is compared;
    // violating states are recorded and not expanded)
    ctx.add_explored(name, u1, t1, u1.saturating_sub(viol.len() as u64), done1, wall);
    ctx.add_nontrivial(u1.saturating_sub(init.len() as u64));
    ctx.bound(&format!("{name}.max_depth"), maxd as u64);
    ctx.add_sample(name, format!("init={:?}; actions={:?}; depth<={}", init.first(), (0..n_actions.min(8)).map(|a| action_name(a)).collect::<Vec<_>>(), max_depth));
    viol.sort();
    viol.dedup();
    for (k, (site, msg)) in viol.into_iter().enumerate() {
        ctx.add_violation_in(name, &format!("{name}/{site}"), k as u64, msg);
    }
}
