pub mod gen_curves;
pub mod gen_fields;
pub mod gen_towers;
pub mod gen_toybn;
