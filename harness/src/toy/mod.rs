pub mod gen_curves;
pub mod gen_fields;
