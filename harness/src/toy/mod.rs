pub mod gen_fields;
