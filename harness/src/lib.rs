//! algebra-mc: bounded-exhaustive model checking harness for arkworks-rs/algebra.
#![allow(clippy::all)]
pub mod core;
pub mod fpaccess;
pub mod refmodel;
pub mod seq;
pub mod shipped;
pub mod toy;
pub mod toycurve;
