//! Raw-limb access to any `Fp<P, N>` without naming N at the call site.
use ark_ff::{BigInt, Fp, FpConfig, PrimeField};
use core::marker::PhantomData;
use num_bigint::BigUint;

pub trait FpAccess: PrimeField {
    const NLIMBS: usize;
    /// raw internal representation (Montgomery form for MontBackend)
    fn raw(&self) -> Vec<u64>;
    /// build an element with exactly these internal limbs (no reduction)
    fn from_raw(limbs: &[u64]) -> Self;
    fn modulus_limbs() -> Vec<u64>;
    /// the by-reference operator impls (`&a + &b` ...), which are separate impls in the library
    fn ref_add(&self, o: &Self) -> Self;
    fn ref_sub(&self, o: &Self) -> Self;
    fn ref_mul(&self, o: &Self) -> Self;
    fn ref_div(&self, o: &Self) -> Self;
    fn modulus_big() -> BigUint {
        crate::refmodel::zmod::from_limbs(&Self::modulus_limbs())
    }
    /// value as integer via the library's own into_bigint (trusted only where stated)
    fn to_big(&self) -> BigUint {
        crate::refmodel::zmod::from_limbs(self.into_bigint().as_ref())
    }
}

impl<P: FpConfig<N>, const N: usize> FpAccess for Fp<P, N> {
    const NLIMBS: usize = N;
    fn raw(&self) -> Vec<u64> {
        (self.0).0.to_vec()
    }
    fn from_raw(limbs: &[u64]) -> Self {
        let mut a = [0u64; N];
        a.copy_from_slice(limbs);
        Fp(BigInt(a), PhantomData)
    }
    fn modulus_limbs() -> Vec<u64> {
        P::MODULUS.0.to_vec()
    }
    fn ref_add(&self, o: &Self) -> Self {
        self + o
    }
    fn ref_sub(&self, o: &Self) -> Self {
        self - o
    }
    fn ref_mul(&self, o: &Self) -> Self {
        self * o
    }
    fn ref_div(&self, o: &Self) -> Self {
        self / o
    }
}
