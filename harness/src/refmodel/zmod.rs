//! Integers mod p on num-bigint (independent of ark-ff arithmetic).
use num_bigint::{BigInt as SBig, BigUint, Sign};
use num_integer::Integer;
use num_traits::{One, Zero};

pub fn from_limbs(l: &[u64]) -> BigUint {
    let mut bytes = Vec::with_capacity(l.len() * 8);
    for x in l {
        bytes.extend_from_slice(&x.to_le_bytes());
    }
    BigUint::from_bytes_le(&bytes)
}
pub fn to_limbs(x: &BigUint, n: usize) -> Vec<u64> {
    let mut d = x.to_u64_digits();
    assert!(d.len() <= n, "to_limbs: value does not fit in {n} limbs");
    d.resize(n, 0);
    d
}
pub fn to_limbs_arr<const N: usize>(x: &BigUint) -> [u64; N] {
    let v = to_limbs(x, N);
    let mut a = [0u64; N];
    a.copy_from_slice(&v);
    a
}
pub fn pow2(k: usize) -> BigUint {
    BigUint::one() << k
}
/// modular inverse by extended Euclid (None if not invertible)
pub fn modinv(a: &BigUint, m: &BigUint) -> Option<BigUint> {
    let a = SBig::from_biguint(Sign::Plus, a % m);
    let m_s = SBig::from_biguint(Sign::Plus, m.clone());
    let (mut r0, mut r1) = (m_s.clone(), a);
    let (mut t0, mut t1) = (SBig::zero(), SBig::one());
    while !r1.is_zero() {
        let q = &r0 / &r1;
        let r2 = &r0 - &q * &r1;
        r0 = r1;
        r1 = r2;
        let t2 = &t0 - &q * &t1;
        t0 = t1;
        t1 = t2;
    }
    if !r0.is_one() {
        return None;
    }
    let t = t0.mod_floor(&m_s);
    Some(t.to_biguint().unwrap())
}
pub fn modneg(a: &BigUint, p: &BigUint) -> BigUint {
    if a.is_zero() {
        BigUint::zero()
    } else {
        p - (a % p)
    }
}
pub fn modsub(a: &BigUint, b: &BigUint, p: &BigUint) -> BigUint {
    ((a % p) + p - (b % p)) % p
}
/// value denoted by raw Montgomery limbs: limbs * R^{-1} mod p, R = 2^(64 N)
pub struct Mont {
    pub p: BigUint,
    pub n: usize,
    pub r: BigUint,
    pub rinv: BigUint,
}
impl Mont {
    pub fn new(p: &BigUint, n: usize) -> Mont {
        let r = pow2(64 * n) % p;
        let rinv = modinv(&r, p).expect("R invertible");
        Mont { p: p.clone(), n, r, rinv }
    }
    pub fn decode(&self, limbs: &[u64]) -> BigUint {
        (from_limbs(limbs) * &self.rinv) % &self.p
    }
    pub fn encode(&self, x: &BigUint) -> Vec<u64> {
        to_limbs(&((x * &self.r) % &self.p), self.n)
    }
    pub fn canonical(&self, limbs: &[u64]) -> bool {
        from_limbs(limbs) < self.p
    }
}
pub fn is_prime_small(n: u64) -> bool {
    if n < 2 {
        return false;
    }
    let mut d = 2u64;
    while d * d <= n {
        if n % d == 0 {
            return false;
        }
        d += 1;
    }
    true
}
/// Miller-Rabin with the first 40 prime bases.
pub fn is_probable_prime(n: &BigUint) -> bool {
    let small: [u32; 40] = [
        2, 3, 5, 7, 11, 13, 17, 19, 23, 29, 31, 37, 41, 43, 47, 53, 59, 61, 67, 71, 73, 79, 83, 89, 97, 101, 103, 107, 109, 113, 127, 131, 137, 139,
        149, 151, 157, 163, 167, 173,
    ];
    if n < &BigUint::from(2u32) {
        return false;
    }
    for q in small {
        let q = BigUint::from(q);
        if (n % &q).is_zero() {
            return *n == q;
        }
    }
    let one = BigUint::one();
    let nm1 = n - &one;
    let s = nm1.trailing_zeros().unwrap();
    let d = &nm1 >> s;
    'outer: for a in small {
        let mut x = BigUint::from(a).modpow(&d, n);
        if x == one || x == nm1 {
            continue;
        }
        for _ in 0..s - 1 {
            x = (&x * &x) % n;
            if x == nm1 {
                continue 'outer;
            }
        }
        return false;
    }
    true
}
