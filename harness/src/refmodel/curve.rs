//! Textbook affine group laws (short Weierstrass chord-and-tangent with explicit
//! case split; affine twisted-Edwards law) over a `FieldModel`, with brute-force
//! point enumeration.
use super::fieldmodel::FieldModel;
use std::collections::HashMap;

#[derive(Clone, Copy, Debug, PartialEq, Eq, Hash, PartialOrd, Ord)]
pub enum Pt<E> {
    O,
    A(E, E),
}

#[derive(Clone)]
pub struct SwModel<M: FieldModel> {
    pub f: M,
    pub a: M::E,
    pub b: M::E,
}
impl<M: FieldModel> SwModel<M> {
    pub fn rhs(&self, x: M::E) -> M::E {
        let f = &self.f;
        f.add(f.add(f.mul(f.sq(x), x), f.mul(self.a, x)), self.b)
    }
    pub fn on_curve(&self, p: Pt<M::E>) -> bool {
        match p {
            Pt::O => true,
            Pt::A(x, y) => self.f.sq(y) == self.rhs(x),
        }
    }
    pub fn neg(&self, p: Pt<M::E>) -> Pt<M::E> {
        match p {
            Pt::O => Pt::O,
            Pt::A(x, y) => Pt::A(x, self.f.neg(y)),
        }
    }
    pub fn add(&self, p: Pt<M::E>, q: Pt<M::E>) -> Pt<M::E> {
        let f = &self.f;
        match (p, q) {
            (Pt::O, _) => q,
            (_, Pt::O) => p,
            (Pt::A(x1, y1), Pt::A(x2, y2)) => {
                let l = if x1 == x2 {
                    if f.add(y1, y2) == f.zero() {
                        return Pt::O; // opposite points (includes y = 0 doubling)
                    }
                    // tangent
                    let num = f.add(f.mul(f.from_u64(3), f.sq(x1)), self.a);
                    f.mul(num, f.inv(f.add(y1, y1)))
                } else {
                    f.mul(f.sub(y2, y1), f.inv(f.sub(x2, x1)))
                };
                let x3 = f.sub(f.sub(f.sq(l), x1), x2);
                let y3 = f.sub(f.mul(l, f.sub(x1, x3)), y1);
                Pt::A(x3, y3)
            }
        }
    }
    /// all points of E(F), identity first
    pub fn points(&self) -> Vec<Pt<M::E>> {
        let f = &self.f;
        let els = f.elements();
        let mut roots: HashMap<M::E, Vec<M::E>> = HashMap::new();
        for y in &els {
            roots.entry(f.sq(*y)).or_default().push(*y);
        }
        let mut out = vec![Pt::O];
        for x in &els {
            if let Some(ys) = roots.get(&self.rhs(*x)) {
                for y in ys {
                    out.push(Pt::A(*x, *y));
                }
            }
        }
        out
    }
}

#[derive(Clone)]
pub struct TeModel<M: FieldModel> {
    pub f: M,
    pub a: M::E,
    pub d: M::E,
}
impl<M: FieldModel> TeModel<M> {
    pub fn identity(&self) -> Pt<M::E> {
        Pt::A(self.f.zero(), self.f.one())
    }
    pub fn on_curve(&self, p: Pt<M::E>) -> bool {
        let f = &self.f;
        match p {
            Pt::O => false, // TE points are always affine pairs; identity is (0,1)
            Pt::A(x, y) => {
                let (x2, y2) = (f.sq(x), f.sq(y));
                f.add(f.mul(self.a, x2), y2) == f.add(f.one(), f.mul(self.d, f.mul(x2, y2)))
            }
        }
    }
    pub fn neg(&self, p: Pt<M::E>) -> Pt<M::E> {
        match p {
            Pt::O => Pt::O,
            Pt::A(x, y) => Pt::A(self.f.neg(x), y),
        }
    }
    /// affine Edwards law; None when a denominator vanishes (incomplete parameters)
    pub fn add(&self, p: Pt<M::E>, q: Pt<M::E>) -> Option<Pt<M::E>> {
        let f = &self.f;
        let (Pt::A(x1, y1), Pt::A(x2, y2)) = (p, q) else { panic!("model: TE points are affine pairs") };
        let t = f.mul(self.d, f.mul(f.mul(x1, x2), f.mul(y1, y2)));
        let dx = f.add(f.one(), t);
        let dy = f.sub(f.one(), t);
        if f.is_zero(dx) || f.is_zero(dy) {
            return None;
        }
        let x3 = f.mul(f.add(f.mul(x1, y2), f.mul(y1, x2)), f.inv(dx));
        let y3 = f.mul(f.sub(f.mul(y1, y2), f.mul(self.a, f.mul(x1, x2))), f.inv(dy));
        Some(Pt::A(x3, y3))
    }
    /// all affine points, identity first
    pub fn points(&self) -> Vec<Pt<M::E>> {
        let els = self.f.elements();
        let mut out = vec![self.identity()];
        for x in &els {
            for y in &els {
                let p = Pt::A(*x, *y);
                if self.on_curve(p) && p != self.identity() {
                    out.push(p);
                }
            }
        }
        out
    }
}

/// A finite abelian group given by its element list and addition, with a
/// precomputed addition table (index based) - the reference for k*P, orders,
/// subgroup membership.
pub struct GroupTable<E> {
    pub pts: Vec<Pt<E>>,
    pub index: HashMap<Pt<E>, usize>,
    /// add[i][j]; usize::MAX where the law is undefined (incomplete TE)
    pub add: Vec<Vec<usize>>,
    pub id: usize,
}
impl<E: Copy + Eq + std::hash::Hash + std::fmt::Debug> GroupTable<E> {
    pub fn build(pts: Vec<Pt<E>>, id: Pt<E>, add: impl Fn(Pt<E>, Pt<E>) -> Option<Pt<E>>) -> Self {
        let index: HashMap<Pt<E>, usize> = pts.iter().enumerate().map(|(i, p)| (*p, i)).collect();
        let n = pts.len();
        let mut tab = vec![vec![usize::MAX; n]; n];
        for i in 0..n {
            for j in 0..n {
                if let Some(r) = add(pts[i], pts[j]) {
                    tab[i][j] = *index.get(&r).unwrap_or_else(|| panic!("model: sum {:?} of {:?},{:?} not in the point list", r, pts[i], pts[j]));
                }
            }
        }
        let id = index[&id];
        GroupTable { pts, index, add: tab, id }
    }
    pub fn n(&self) -> usize {
        self.pts.len()
    }
    /// k*P by repeated addition of P (k < ~10^6); None if the law is undefined on the way
    pub fn mul(&self, k: u64, p: usize) -> Option<usize> {
        let mut acc = self.id;
        let mut base = p;
        let mut k = k;
        while k > 0 {
            if k & 1 == 1 {
                acc = self.add[acc][base];
                if acc == usize::MAX {
                    return None;
                }
            }
            k >>= 1;
            if k > 0 {
                base = self.add[base][base];
                if base == usize::MAX {
                    return None;
                }
            }
        }
        Some(acc)
    }
    /// order of the point (smallest k >= 1 with kP = id), by repeated addition
    pub fn order(&self, p: usize) -> Option<u64> {
        let mut acc = p;
        let mut k = 1u64;
        while acc != self.id {
            acc = self.add[acc][p];
            if acc == usize::MAX {
                return None;
            }
            k += 1;
        }
        Some(k)
    }
    pub fn neg(&self, p: usize) -> usize {
        (0..self.n()).find(|q| self.add[p][*q] == self.id).expect("model: no inverse")
    }
}
