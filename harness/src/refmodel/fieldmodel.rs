//! Boring reference models of small finite fields on u64, and the bridge to the
//! library's field types (conversions F::from(u64) / into_bigint are C01's job).
use ark_ff::{Field, PrimeField};
use std::fmt::Debug;
use std::hash::Hash;

pub trait FieldModel: Clone + Send + Sync + 'static {
    type E: Copy + Eq + Ord + Hash + Debug + Send + Sync + 'static;
    fn zero(&self) -> Self::E;
    fn one(&self) -> Self::E;
    fn add(&self, a: Self::E, b: Self::E) -> Self::E;
    fn sub(&self, a: Self::E, b: Self::E) -> Self::E;
    fn neg(&self, a: Self::E) -> Self::E;
    fn mul(&self, a: Self::E, b: Self::E) -> Self::E;
    /// inverse of a non-zero element
    fn inv(&self, a: Self::E) -> Self::E;
    fn is_zero(&self, a: Self::E) -> bool {
        a == self.zero()
    }
    fn from_u64(&self, x: u64) -> Self::E;
    /// every element of the field, in a fixed order
    fn elements(&self) -> Vec<Self::E>;
    fn order(&self) -> u64;
    fn sq(&self, a: Self::E) -> Self::E {
        self.mul(a, a)
    }
    fn pow(&self, a: Self::E, mut e: u64) -> Self::E {
        let mut r = self.one();
        let mut b = a;
        while e > 0 {
            if e & 1 == 1 {
                r = self.mul(r, b);
            }
            b = self.mul(b, b);
            e >>= 1;
        }
        r
    }
    /// all square roots of a (0, 1 or 2 elements) by exhaustive search
    fn sqrts(&self, a: Self::E) -> Vec<Self::E> {
        self.elements().into_iter().filter(|y| self.sq(*y) == a).collect()
    }
}

/// F_p for a prime p < 2^32
#[derive(Clone, Copy, Debug)]
pub struct PrimeModel {
    pub p: u64,
}
impl FieldModel for PrimeModel {
    type E = u64;
    fn zero(&self) -> u64 {
        0
    }
    fn one(&self) -> u64 {
        1 % self.p
    }
    fn add(&self, a: u64, b: u64) -> u64 {
        (a + b) % self.p
    }
    fn sub(&self, a: u64, b: u64) -> u64 {
        (a + self.p - b) % self.p
    }
    fn neg(&self, a: u64) -> u64 {
        (self.p - a) % self.p
    }
    fn mul(&self, a: u64, b: u64) -> u64 {
        ((a as u128 * b as u128) % self.p as u128) as u64
    }
    fn inv(&self, a: u64) -> u64 {
        assert!(a % self.p != 0, "model: inverse of zero");
        self.pow(a, self.p - 2)
    }
    fn from_u64(&self, x: u64) -> u64 {
        x % self.p
    }
    fn elements(&self) -> Vec<u64> {
        (0..self.p).collect()
    }
    fn order(&self) -> u64 {
        self.p
    }
}

/// F_p[u]/(u^2 - beta), elements (c0, c1)
#[derive(Clone, Copy, Debug)]
pub struct Fp2Model {
    pub p: u64,
    pub beta: u64,
}
impl FieldModel for Fp2Model {
    type E = (u64, u64);
    fn zero(&self) -> Self::E {
        (0, 0)
    }
    fn one(&self) -> Self::E {
        (1, 0)
    }
    fn add(&self, a: Self::E, b: Self::E) -> Self::E {
        ((a.0 + b.0) % self.p, (a.1 + b.1) % self.p)
    }
    fn sub(&self, a: Self::E, b: Self::E) -> Self::E {
        ((a.0 + self.p - b.0) % self.p, (a.1 + self.p - b.1) % self.p)
    }
    fn neg(&self, a: Self::E) -> Self::E {
        ((self.p - a.0) % self.p, (self.p - a.1) % self.p)
    }
    fn mul(&self, a: Self::E, b: Self::E) -> Self::E {
        let p = self.p;
        let c0 = (a.0 * b.0 + (a.1 * b.1 % p) * self.beta) % p;
        let c1 = (a.0 * b.1 + a.1 * b.0) % p;
        (c0, c1)
    }
    fn inv(&self, a: Self::E) -> Self::E {
        // 1/(c0 + c1 u) = (c0 - c1 u)/(c0^2 - beta c1^2)
        let p = self.p;
        let f = PrimeModel { p };
        let n = f.sub(f.mul(a.0, a.0), f.mul(self.beta, f.mul(a.1, a.1)));
        let ni = f.inv(n);
        (f.mul(a.0, ni), f.mul(f.neg(a.1), ni))
    }
    fn from_u64(&self, x: u64) -> Self::E {
        (x % self.p, 0)
    }
    fn elements(&self) -> Vec<Self::E> {
        let mut v = Vec::with_capacity((self.p * self.p) as usize);
        for c1 in 0..self.p {
            for c0 in 0..self.p {
                v.push((c0, c1));
            }
        }
        v
    }
    fn order(&self) -> u64 {
        self.p * self.p
    }
}

/// conversion between model elements and library field elements
pub trait Bridge<F: Field>: FieldModel {
    fn to_lib(&self, e: Self::E) -> F;
    fn from_lib(&self, f: &F) -> Self::E;
}
pub fn prime_to_u64<F: PrimeField>(f: &F) -> u64 {
    let b = f.into_bigint();
    let l = b.as_ref();
    assert!(l[1..].iter().all(|x| *x == 0));
    l[0]
}
impl<F: PrimeField> Bridge<F> for PrimeModel {
    fn to_lib(&self, e: u64) -> F {
        F::from(e)
    }
    fn from_lib(&self, f: &F) -> u64 {
        prime_to_u64(f)
    }
}
/// quadratic extension of a prime field (F::BasePrimeField elements c0, c1)
pub struct Fp2Bridge;
impl Fp2Model {
    pub fn to_lib_ext<F: Field>(&self, e: (u64, u64)) -> F {
        F::from_base_prime_field_elems([F::BasePrimeField::from(e.0), F::BasePrimeField::from(e.1)]).expect("degree-2 extension")
    }
    pub fn from_lib_ext<F: Field>(&self, f: &F) -> (u64, u64) {
        let v: Vec<u64> = f.to_base_prime_field_elements().map(|x| prime_to_u64(&x)).collect();
        assert_eq!(v.len(), 2);
        (v[0], v[1])
    }
}
