pub mod zmod;
