pub mod curve;
pub mod fieldmodel;
pub mod zmod;
