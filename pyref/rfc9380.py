#!/usr/bin/env python3
"""Independent pure-python reference model of RFC 9380 (hashing to elliptic curves).

hashlib + int only.  Written from the text of the RFC:
  * expand_message_xmd                         (section 5.3.1, oversize DST rule 5.3.3)
  * hash_to_field                              (section 5.2,  L = ceil((ceil(log2 p) + k) / 8))
  * sgn0                                       (section 4.1)
  * simplified SWU, straight-line version      (section 6.6.2)
  * simplified SWU for AB == 0 via an isogeny  (section 6.6.3, appendix E.2 / E.3)
  * Elligator 2 + Montgomery -> twisted Edwards rational map (sections 6.7.1, 6.8.2, appendix D.1)
  * hash_to_curve = clear_cofactor(map(u0) + map(u1))   (section 3), clear_cofactor(P) = h_eff * P (section 7)

Curve arithmetic is the affine chord-and-tangent law with an explicit case split.
The isogeny coefficient tables are *data* copied from
/repo/curves/bls12_{381,377}/src/curves/g{1,2}_swu_iso.rs (for BLS12-381 they are the tables of
RFC 9380 appendix E.2/E.3); whether they are right is property C16's business, the evaluation of the
rational map is done here.  The BLS12-377 suites are not RFC suites; they are the same construction
with the parameters the library ships (Z, isogenous curve, isogeny, h_eff), and are validated against the
reference vectors shipped with the library.

`python3 rfc9380.py` runs the self-test (RFC appendix vectors; exit code 0 = all reproduced).
"""
import hashlib
import sys

# ----------------------------------------------------------------------------------------------
# 5.3.1 expand_message_xmd
# ----------------------------------------------------------------------------------------------
HASHES = {
    # name: (constructor, b_in_bytes (output size), s_in_bytes (input block size))
    "sha256": (hashlib.sha256, 32, 64),
    "sha224": (hashlib.sha224, 28, 64),  # digest size not a multiple of 8 bytes
    "sha384": (hashlib.sha384, 48, 128),
    "sha512": (hashlib.sha512, 64, 128),
}


def i2osp(x, n):
    if x < 0 or x >= 256 ** n:
        raise ValueError("I2OSP: integer too large")
    return x.to_bytes(n, "big")


def os2ip(b):
    return int.from_bytes(b, "big")


def strxor(a, b):
    assert len(a) == len(b)
    return bytes(x ^ y for x, y in zip(a, b))


def expand_message_xmd(msg, dst, len_in_bytes, hash_name="sha256", s_in_bytes=None):
    """RFC 9380 section 5.3.1.  `s_in_bytes` can be overridden ONLY to model a (non-conforming)
    implementation that pads with a different number of zero bytes; None = the hash's block size."""
    H, b_in_bytes, s_std = HASHES[hash_name]
    if s_in_bytes is None:
        s_in_bytes = s_std
    if len(dst) > 255:
        # 5.3.3: DST = H("H2C-OVERSIZE-DST-" || a_very_long_DST)
        dst = H(b"H2C-OVERSIZE-DST-" + dst).digest()
    ell = -(-len_in_bytes // b_in_bytes)
    if ell > 255 or len_in_bytes > 65535 or len(dst) > 255:
        raise ValueError("expand_message_xmd: abort")
    dst_prime = dst + i2osp(len(dst), 1)
    z_pad = i2osp(0, s_in_bytes)
    l_i_b_str = i2osp(len_in_bytes, 2)
    msg_prime = z_pad + msg + l_i_b_str + i2osp(0, 1) + dst_prime
    b_0 = H(msg_prime).digest()
    b = [None, H(b_0 + i2osp(1, 1) + dst_prime).digest()]
    for i in range(2, ell + 1):
        b.append(H(strxor(b_0, b[i - 1]) + i2osp(i, 1) + dst_prime).digest())
    uniform_bytes = b"".join(b[1:])
    return uniform_bytes[:len_in_bytes]


# ----------------------------------------------------------------------------------------------
# 5.2 hash_to_field
# ----------------------------------------------------------------------------------------------
def ceil_log2(p):
    return (p - 1).bit_length()


def L_of(p, k=128):
    return -(-(ceil_log2(p) + k) // 8)


def hash_to_field_ints(msg, count, dst, p, m, k=128, hash_name="sha256", s_in_bytes=None):
    """returns (uniform_bytes, [[e_0..e_(m-1)] * count]) with e_j integers mod p"""
    L = L_of(p, k)
    len_in_bytes = count * m * L
    uniform_bytes = expand_message_xmd(msg, dst, len_in_bytes, hash_name, s_in_bytes)
    out = []
    for i in range(count):
        e = []
        for j in range(m):
            elm_offset = L * (j + i * m)
            tv = uniform_bytes[elm_offset:elm_offset + L]
            e.append(os2ip(tv) % p)
        out.append(e)
    return uniform_bytes, out


# ----------------------------------------------------------------------------------------------
# fields: F_p (ints) and F_p^2 = F_p[i]/(i^2 - beta) (pairs)
# ----------------------------------------------------------------------------------------------
class Fp:
    def __init__(self, p):
        self.p = p
        self.m = 1
        self.zero = 0
        self.one = 1 % p
        # Tonelli-Shanks precomputation
        q = p - 1
        s = 0
        while q % 2 == 0:
            q //= 2
            s += 1
        self.ts_q, self.ts_s = q, s
        z = 2
        while pow(z, (p - 1) // 2, p) != p - 1:
            z += 1
        self.ts_c = pow(z, q, p)

    def el(self, x):
        return x % self.p

    def coords(self, x):
        return [x]

    def from_coords(self, c):
        return c[0] % self.p

    def add(self, a, b):
        return (a + b) % self.p

    def sub(self, a, b):
        return (a - b) % self.p

    def neg(self, a):
        return (-a) % self.p

    def mul(self, a, b):
        return a * b % self.p

    def inv0(self, a):
        a %= self.p
        return 0 if a == 0 else pow(a, -1, self.p)

    def is_zero(self, a):
        return a % self.p == 0

    def is_square(self, a):
        return pow(a, (self.p - 1) // 2, self.p) in (0, 1)

    def sqrt(self, a):
        """some square root of a, or None"""
        p = self.p
        a %= p
        if a == 0:
            return 0
        if pow(a, (p - 1) // 2, p) != 1:
            return None
        q, s, c = self.ts_q, self.ts_s, self.ts_c
        r = pow(a, (q + 1) // 2, p)
        t = pow(a, q, p)
        m = s
        while t != 1:
            i, t2 = 0, t
            while t2 != 1:
                t2 = t2 * t2 % p
                i += 1
            b = pow(c, 1 << (m - i - 1), p)
            r = r * b % p
            c = b * b % p
            t = t * c % p
            m = i
        assert r * r % p == a
        return r

    def sgn0(self, a):
        return a % self.p % 2


class Fp2:
    def __init__(self, p, beta):
        self.p = p
        self.m = 2
        self.beta = beta % p
        self.fp = Fp(p)
        assert not self.fp.is_square(self.beta)
        self.zero = (0, 0)
        self.one = (1, 0)

    def el(self, x):
        if isinstance(x, tuple):
            return (x[0] % self.p, x[1] % self.p)
        return (x % self.p, 0)

    def coords(self, x):
        return [x[0], x[1]]

    def from_coords(self, c):
        return (c[0] % self.p, c[1] % self.p)

    def add(self, a, b):
        return ((a[0] + b[0]) % self.p, (a[1] + b[1]) % self.p)

    def sub(self, a, b):
        return ((a[0] - b[0]) % self.p, (a[1] - b[1]) % self.p)

    def neg(self, a):
        return ((-a[0]) % self.p, (-a[1]) % self.p)

    def mul(self, a, b):
        p = self.p
        return ((a[0] * b[0] + self.beta * a[1] * b[1]) % p, (a[0] * b[1] + a[1] * b[0]) % p)

    def norm(self, a):
        return (a[0] * a[0] - self.beta * a[1] * a[1]) % self.p

    def inv0(self, a):
        n = self.norm(a)
        ni = 0 if n == 0 else pow(n, -1, self.p)
        return (a[0] * ni % self.p, (-a[1]) * ni % self.p)

    def is_zero(self, a):
        return a[0] % self.p == 0 and a[1] % self.p == 0

    def is_square(self, a):
        # a is a square in F_p^2  <=>  a^((p^2-1)/2) in {0,1}  <=>  N(a)^((p-1)/2) in {0,1}
        return self.fp.is_square(self.norm(a))

    def sqrt(self, a):
        p, fp = self.p, self.fp
        a = self.el(a)
        if a == (0, 0):
            return (0, 0)
        if a[1] == 0:
            r = fp.sqrt(a[0])
            if r is not None:
                res = (r, 0)
            else:
                r = fp.sqrt(a[0] * pow(self.beta, p - 2, p) % p)
                res = (0, r)
        else:
            s = fp.sqrt(self.norm(a))
            if s is None:
                return None
            inv2 = pow(2, p - 2, p)
            t = (a[0] + s) * inv2 % p
            x0 = fp.sqrt(t)
            if x0 is None:
                t = (a[0] - s) * inv2 % p
                x0 = fp.sqrt(t)
            x1 = a[1] * pow(2 * x0, p - 2, p) % p
            res = (x0, x1)
        assert self.mul(res, res) == a
        return res

    def sgn0(self, a):
        # 4.1, m = 2:  sign_0 OR (zero_0 AND sign_1)
        a0, a1 = a[0] % self.p, a[1] % self.p
        sign_0 = a0 % 2
        zero_0 = 1 if a0 == 0 else 0
        sign_1 = a1 % 2
        return sign_0 | (zero_0 & sign_1)


def sgn0_generic(coords):
    """4.1 for any m: parity of the first non-zero coordinate (0 for zero)."""
    sign, zero = 0, 1
    for c in coords:
        sign_i = c % 2
        zero_i = 1 if c == 0 else 0
        sign = sign | (zero & sign_i)
        zero = zero & zero_i
    return sign


# ----------------------------------------------------------------------------------------------
# short Weierstrass curves y^2 = x^3 + A x + B, affine law; None = identity
# ----------------------------------------------------------------------------------------------
class SWCurve:
    def __init__(self, F, A, B):
        self.F, self.A, self.B = F, F.el(A), F.el(B)

    def g(self, x):
        F = self.F
        return F.add(F.add(F.mul(F.mul(x, x), x), F.mul(self.A, x)), self.B)

    def on_curve(self, P):
        if P is None:
            return True
        F = self.F
        return F.mul(P[1], P[1]) == self.g(P[0])

    def neg(self, P):
        return None if P is None else (P[0], self.F.neg(P[1]))

    def add(self, P, Q):
        F = self.F
        if P is None:
            return Q
        if Q is None:
            return P
        x1, y1 = P
        x2, y2 = Q
        if x1 == x2:
            if F.is_zero(F.add(y1, y2)):
                return None
            # doubling
            three_x2 = F.mul(F.el(3), F.mul(x1, x1))
            lam = F.mul(F.add(three_x2, self.A), F.inv0(F.add(y1, y1)))
        else:
            lam = F.mul(F.sub(y2, y1), F.inv0(F.sub(x2, x1)))
        x3 = F.sub(F.sub(F.mul(lam, lam), x1), x2)
        y3 = F.sub(F.mul(lam, F.sub(x1, x3)), y1)
        return (x3, y3)

    def mul(self, k, P):
        if k < 0:
            return self.mul(-k, self.neg(P))
        R = None
        for bit in bin(k)[2:]:
            R = self.add(R, R)
            if bit == "1":
                R = self.add(R, P)
        return R


# ----------------------------------------------------------------------------------------------
# 6.6.2 simplified SWU (straight-line version, NOT the optimised appendix F.2 one)
# ----------------------------------------------------------------------------------------------
def map_to_curve_simple_swu(F, A, B, Z, u):
    A, B, Z, u = F.el(A), F.el(B), F.el(Z), F.el(u)
    u2 = F.mul(u, u)
    zu2 = F.mul(Z, u2)
    # 1. tv1 = inv0(Z^2 * u^4 + Z * u^2)
    tv1 = F.inv0(F.add(F.mul(zu2, zu2), zu2))
    # 2. x1 = (-B / A) * (1 + tv1)
    x1 = F.mul(F.mul(F.neg(B), F.inv0(A)), F.add(F.one, tv1))
    # 3. If tv1 == 0, set x1 = B / (Z * A)
    if F.is_zero(tv1):
        x1 = F.mul(B, F.inv0(F.mul(Z, A)))
    # 4. gx1 = x1^3 + A * x1 + B
    gx1 = F.add(F.add(F.mul(F.mul(x1, x1), x1), F.mul(A, x1)), B)
    # 5. x2 = Z * u^2 * x1
    x2 = F.mul(zu2, x1)
    # 6. gx2 = x2^3 + A * x2 + B
    gx2 = F.add(F.add(F.mul(F.mul(x2, x2), x2), F.mul(A, x2)), B)
    # 7./8.
    if F.is_square(gx1):
        x, y = x1, F.sqrt(gx1)
        branch = "gx1_square"
    else:
        x, y = x2, F.sqrt(gx2)
        branch = "gx1_nonsquare"
    assert y is not None
    # 9. If sgn0(u) != sgn0(y), set y = -y
    if F.sgn0(u) != F.sgn0(y):
        y = F.neg(y)
    info = {"branch": branch, "exceptional": F.is_zero(tv1), "gx1_zero": F.is_zero(gx1)}
    return (x, y), info


def poly_eval(F, coeffs, x):
    """coeffs[0] + coeffs[1] x + ... (Horner)"""
    acc = F.zero
    for c in reversed(coeffs):
        acc = F.add(F.mul(acc, x), F.el(c))
    return acc


def iso_map(F, iso, P):
    """appendix E: x = x_num/x_den, y = y' * y_num/y_den; a vanishing denominator gives the identity."""
    if P is None:
        return None
    x, y = P
    xn = poly_eval(F, iso["x_map_numerator"], x)
    xd = poly_eval(F, iso["x_map_denominator"], x)
    yn = poly_eval(F, iso["y_map_numerator"], x)
    yd = poly_eval(F, iso["y_map_denominator"], x)
    if F.is_zero(xd) or F.is_zero(yd):
        return None
    return (F.mul(xn, F.inv0(xd)), F.mul(y, F.mul(yn, F.inv0(yd))))


# ----------------------------------------------------------------------------------------------
# 6.7.1 Elligator 2 (Montgomery K t^2 = s^3 + J s^2 + s), D.1 rational map to twisted Edwards
# ----------------------------------------------------------------------------------------------
def map_to_curve_elligator2(F, J, K, Z, u):
    J, K, Z, u = F.el(J), F.el(K), F.el(Z), F.el(u)
    JK = F.mul(J, F.inv0(K))
    K2inv = F.inv0(F.mul(K, K))
    # 1. x1 = -(J / K) * inv0(1 + Z * u^2)
    den = F.add(F.one, F.mul(Z, F.mul(u, u)))
    x1 = F.mul(F.neg(JK), F.inv0(den))
    # 2. If x1 == 0, set x1 = -(J / K)
    if F.is_zero(x1):
        x1 = F.neg(JK)
    g = lambda x: F.add(F.add(F.mul(F.mul(x, x), x), F.mul(JK, F.mul(x, x))), F.mul(x, K2inv))
    gx1 = g(x1)
    x2 = F.sub(F.neg(x1), JK)
    gx2 = g(x2)
    if F.is_square(gx1):
        x, y = x1, F.sqrt(gx1)
        if F.sgn0(y) != 1:
            y = F.neg(y)
        branch = "gx1_square"
    else:
        x, y = x2, F.sqrt(gx2)
        if F.sgn0(y) != 0:
            y = F.neg(y)
        branch = "gx1_nonsquare"
    s = F.mul(x, K)
    t = F.mul(y, K)
    return (s, t), {"branch": branch, "exceptional": F.is_zero(den), "gx1_zero": F.is_zero(gx1)}


def monty_to_edwards(F, s, t):
    """D.1: (v, w) = (s / t, (s - 1) / (s + 1)); exceptional cases t == 0 or s == -1 give (0, 1)."""
    if F.is_zero(t) or F.is_zero(F.add(s, F.one)):
        return (F.zero, F.one)
    return (F.mul(s, F.inv0(t)), F.mul(F.sub(s, F.one), F.inv0(F.add(s, F.one))))


# ----------------------------------------------------------------------------------------------
# suites
# ----------------------------------------------------------------------------------------------
P381 = 0x1A0111EA397FE69A4B1BA7B6434BACD764774B84F38512BF6730D2A0F6B0F6241EABFFFEB153FFFFB9FEFFFFFFFFAAAB
R381 = 0x73EDA753299D7D483339D80809A1D80553BDA402FFFE5BFEFFFFFFFF00000001
P377 = 0x01AE3A4617C510EAC63B05C06CA1493B1A22D9F300F5138F1EF3622FBA094800170B5D44300000008508C00000000001
R377 = 0x12AB655E9A2CA55660B44D1E5C37B00159AA76FED00000010A11800000000001

ISO_G1_381 = {
    'x_map_numerator': [
        0x11a05f2b1e833340b809101dd99815856b303e88a2d7005ff2627b56cdb4e2c85610c2d5f2e62d6eaeac1662734649b7,
        0x17294ed3e943ab2f0588bab22147a81c7c17e75b2f6a8417f565e33c70d1e86b4838f2a6f318c356e834eef1b3cb83bb,
        0xd54005db97678ec1d1048c5d10a9a1bce032473295983e56878e501ec68e25c958c3e3d2a09729fe0179f9dac9edcb0,
        0x1778e7166fcc6db74e0609d307e55412d7f5e4656a8dbf25f1b33289f1b330835336e25ce3107193c5b388641d9b6861,
        0xe99726a3199f4436642b4b3e4118e5499db995a1257fb3f086eeb65982fac18985a286f301e77c451154ce9ac8895d9,
        0x1630c3250d7313ff01d1201bf7a74ab5db3cb17dd952799b9ed3ab9097e68f90a0870d2dcae73d19cd13c1c66f652983,
        0xd6ed6553fe44d296a3726c38ae652bfb11586264f0f8ce19008e218f9c86b2a8da25128c1052ecaddd7f225a139ed84,
        0x17b81e7701abdbe2e8743884d1117e53356de5ab275b4db1a682c62ef0f2753339b7c8f8c8f475af9ccb5618e3f0c88e,
        0x80d3cf1f9a78fc47b90b33563be990dc43b756ce79f5574a2c596c928c5d1de4fa295f296b74e956d71986a8497e317,
        0x169b1f8e1bcfa7c42e0c37515d138f22dd2ecb803a0c5c99676314baf4bb1b7fa3190b2edc0327797f241067be390c9e,
        0x10321da079ce07e272d8ec09d2565b0dfa7dccdde6787f96d50af36003b14866f69b771f8c285decca67df3f1605fb7b,
        0x6e08c248e260e70bd1e962381edee3d31d79d7e22c837bc23c0bf1bc24c6b68c24b1b80b64d391fa9c8ba2e8ba2d229,
    ],
    'x_map_denominator': [
        0x8ca8d548cff19ae18b2e62f4bd3fa6f01d5ef4ba35b48ba9c9588617fc8ac62b558d681be343df8993cf9fa40d21b1c,
        0x12561a5deb559c4348b4711298e536367041e8ca0cf0800c0126c2588c48bf5713daa8846cb026e9e5c8276ec82b3bff,
        0xb2962fe57a3225e8137e629bff2991f6f89416f5a718cd1fca64e00b11aceacd6a3d0967c94fedcfcc239ba5cb83e19,
        0x3425581a58ae2fec83aafef7c40eb545b08243f16b1655154cca8abc28d6fd04976d5243eecf5c4130de8938dc62cd8,
        0x13a8e162022914a80a6f1d5f43e7a07dffdfc759a12062bb8d6b44e833b306da9bd29ba81f35781d539d395b3532a21e,
        0xe7355f8e4e667b955390f7f0506c6e9395735e9ce9cad4d0a43bcef24b8982f7400d24bc4228f11c02df9a29f6304a5,
        0x772caacf16936190f3e0c63e0596721570f5799af53a1894e2e073062aede9cea73b3538f0de06cec2574496ee84a3a,
        0x14a7ac2a9d64a8b230b3f5b074cf01996e7f63c21bca68a81996e1cdf9822c580fa5b9489d11e2d311f7d99bbdcc5a5e,
        0xa10ecf6ada54f825e920b3dafc7a3cce07f8d1d7161366b74100da67f39883503826692abba43704776ec3a79a1d641,
        0x95fc13ab9e92ad4476d6e3eb3a56680f682b4ee96f7d03776df533978f31c1593174e4b4b7865002d6384d168ecdd0a,
        0x1,
    ],
    'y_map_numerator': [
        0x90d97c81ba24ee0259d1f094980dcfa11ad138e48a869522b52af6c956543d3cd0c7aee9b3ba3c2be9845719707bb33,
        0x134996a104ee5811d51036d776fb46831223e96c254f383d0f906343eb67ad34d6c56711962fa8bfe097e75a2e41c696,
        0xcc786baa966e66f4a384c86a3b49942552e2d658a31ce2c344be4b91400da7d26d521628b00523b8dfe240c72de1f6,
        0x1f86376e8981c217898751ad8746757d42aa7b90eeb791c09e4a3ec03251cf9de405aba9ec61deca6355c77b0e5f4cb,
        0x8cc03fdefe0ff135caf4fe2a21529c4195536fbe3ce50b879833fd221351adc2ee7f8dc099040a841b6daecf2e8fedb,
        0x16603fca40634b6a2211e11db8f0a6a074a7d0d4afadb7bd76505c3d3ad5544e203f6326c95a807299b23ab13633a5f0,
        0x4ab0b9bcfac1bbcb2c977d027796b3ce75bb8ca2be184cb5231413c4d634f3747a87ac2460f415ec961f8855fe9d6f2,
        0x987c8d5333ab86fde9926bd2ca6c674170a05bfe3bdd81ffd038da6c26c842642f64550fedfe935a15e4ca31870fb29,
        0x9fc4018bd96684be88c9e221e4da1bb8f3abd16679dc26c1e8b6e6a1f20cabe69d65201c78607a360370e577bdba587,
        0xe1bba7a1186bdb5223abde7ada14a23c42a0ca7915af6fe06985e7ed1e4d43b9b3f7055dd4eba6f2bafaaebca731c30,
        0x19713e47937cd1be0dfd0b8f1d43fb93cd2fcbcb6caf493fd1183e416389e61031bf3a5cce3fbafce813711ad011c132,
        0x18b46a908f36f6deb918c143fed2edcc523559b8aaf0c2462e6bfe7f911f643249d9cdf41b44d606ce07c8a4d0074d8e,
        0xb182cac101b9399d155096004f53f447aa7b12a3426b08ec02710e807b4633f06c851c1919211f20d4c04f00b971ef8,
        0x245a394ad1eca9b72fc00ae7be315dc757b3b080d4c158013e6632d3c40659cc6cf90ad1c232a6442d9d3f5db980133,
        0x5c129645e44cf1102a159f748c4a3fc5e673d81d7e86568d9ab0f5d396a7ce46ba1049b6579afb7866b1e715475224b,
        0x15e6be4e990f03ce4ea50b3b42df2eb5cb181d8f84965a3957add4fa95af01b2b665027efec01c7704b456be69c8b604,
    ],
    'y_map_denominator': [
        0x16112c4c3a9c98b252181140fad0eae9601a6de578980be6eec3232b5be72e7a07f3688ef60c206d01479253b03663c1,
        0x1962d75c2381201e1a0cbd6c43c348b885c84ff731c4d59ca4a10356f453e01f78a4260763529e3532f6102c2e49a03d,
        0x58df3306640da276faaae7d6e8eb15778c4855551ae7f310c35a5dd279cd2eca6757cd636f96f891e2538b53dbf67f2,
        0x16b7d288798e5395f20d23bf89edb4d1d115c5dbddbcd30e123da489e726af41727364f2c28297ada8d26d98445f5416,
        0xbe0e079545f43e4b00cc912f8228ddcc6d19c9f0f69bbb0542eda0fc9dec916a20b15dc0fd2ededda39142311a5001d,
        0x8d9e5297186db2d9fb266eaac783182b70152c65550d881c5ecd87b6f0f5a6449f38db9dfa9cce202c6477faaf9b7ac,
        0x166007c08a99db2fc3ba8734ace9824b5eecfdfa8d0cf8ef5dd365bc400a0051d5fa9c01a58b1fb93d1a1399126a775c,
        0x16a3ef08be3ea7ea03bcddfabba6ff6ee5a4375efa1f4fd7feb34fd206357132b920f5b00801dee460ee415a15812ed9,
        0x1866c8ed336c61231a1be54fd1d74cc4f9fb0ce4c6af5920abc5750c4bf39b4852cfe2f7bb9248836b233d9d55535d4a,
        0x167a55cda70a6e1cea820597d94a84903216f763e13d87bb5308592e7ea7d4fbc7385ea3d529b35e346ef48bb8913f55,
        0x4d2f259eea405bd48f010a01ad2911d9c6dd039bb61a6290e591b36e636a5c871a5c29f4f83060400f8b49cba8f6aa8,
        0xaccbb67481d033ff5852c1e48c50c477f94ff8aefce42d28c0f9a88cea7913516f968986f7ebbea9684b529e2561092,
        0xad6b9514c767fe3c3613144b45f1496543346d98adf02267d5ceef9a00d9b8693000763e3b90ac11e99b138573345cc,
        0x2660400eb2e4f3b628bdd0d53cd76f2bf565b94e72927c1cb748df27942480e420517bd8714cc80d1fadc1326ed06f7,
        0xe0fa1d816ddc03e6b24255e0d7819c171c40f65e273b853324efcd6356caa205ca2f570f13497804415473a1d634b8f,
        0x1,
    ],
}
ISO_G2_381 = {
    'x_map_numerator': [
        (0x5c759507e8e333ebb5b7a9a47d7ed8532c52d39fd3a042a88b58423c50ae15d5c2638e343d9c71c6238aaaaaaaa97d6, 0x5c759507e8e333ebb5b7a9a47d7ed8532c52d39fd3a042a88b58423c50ae15d5c2638e343d9c71c6238aaaaaaaa97d6),
        (0x0, 0x11560bf17baa99bc32126fced787c88f984f87adf7ae0c7f9a208c6b4f20a4181472aaa9cb8d555526a9ffffffffc71a),
        (0x11560bf17baa99bc32126fced787c88f984f87adf7ae0c7f9a208c6b4f20a4181472aaa9cb8d555526a9ffffffffc71e, 0x8ab05f8bdd54cde190937e76bc3e447cc27c3d6fbd7063fcd104635a790520c0a395554e5c6aaaa9354ffffffffe38d),
        (0x171d6541fa38ccfaed6dea691f5fb614cb14b4e7f4e810aa22d6108f142b85757098e38d0f671c7188e2aaaaaaaa5ed1, 0x0),
    ],
    'x_map_denominator': [
        (0x0, 0x1a0111ea397fe69a4b1ba7b6434bacd764774b84f38512bf6730d2a0f6b0f6241eabfffeb153ffffb9feffffffffaa63),
        (0xc, 0x1a0111ea397fe69a4b1ba7b6434bacd764774b84f38512bf6730d2a0f6b0f6241eabfffeb153ffffb9feffffffffaa9f),
        (0x1, 0x0),
    ],
    'y_map_numerator': [
        (0x1530477c7ab4113b59a4c18b076d11930f7da5d4a07f649bf54439d87d27e500fc8c25ebf8c92f6812cfc71c71c6d706, 0x1530477c7ab4113b59a4c18b076d11930f7da5d4a07f649bf54439d87d27e500fc8c25ebf8c92f6812cfc71c71c6d706),
        (0x0, 0x5c759507e8e333ebb5b7a9a47d7ed8532c52d39fd3a042a88b58423c50ae15d5c2638e343d9c71c6238aaaaaaaa97be),
        (0x11560bf17baa99bc32126fced787c88f984f87adf7ae0c7f9a208c6b4f20a4181472aaa9cb8d555526a9ffffffffc71c, 0x8ab05f8bdd54cde190937e76bc3e447cc27c3d6fbd7063fcd104635a790520c0a395554e5c6aaaa9354ffffffffe38f),
        (0x124c9ad43b6cf79bfbf7043de3811ad0761b0f37a1e26286b0e977c69aa274524e79097a56dc4bd9e1b371c71c718b10, 0x0),
    ],
    'y_map_denominator': [
        (0x1a0111ea397fe69a4b1ba7b6434bacd764774b84f38512bf6730d2a0f6b0f6241eabfffeb153ffffb9feffffffffa8fb, 0x1a0111ea397fe69a4b1ba7b6434bacd764774b84f38512bf6730d2a0f6b0f6241eabfffeb153ffffb9feffffffffa8fb),
        (0x0, 0x1a0111ea397fe69a4b1ba7b6434bacd764774b84f38512bf6730d2a0f6b0f6241eabfffeb153ffffb9feffffffffa9d3),
        (0x12, 0x1a0111ea397fe69a4b1ba7b6434bacd764774b84f38512bf6730d2a0f6b0f6241eabfffeb153ffffb9feffffffffaa99),
        (0x1, 0x0),
    ],
}
ISO_G1_377 = {
    'x_map_numerator': [
        0x142abb491d3ccb00d65810beba93dbb0a661fd85974d6aa82c4bb2e1a3c84ffdd6ef419b80000000000000000000000,
        0x4d9d782ee8a7b7630cd57be9a2ca555e2f689a3cb86f60022910be6480000004284600000000001,
        0x142abb491d3ccb014ac44505178f6ec539a237640b7ceab573689a3cb86f600114885f32400000063c6900000000001,
    ],
    'x_map_denominator': [
        0x13675e0bba29edd8c3355efa68b295578bda268f2e1bd8008a442f99200000010a11800000000004,
        0x1,
    ],
    'y_map_numerator': [
        0x142abb491d3ccb014ac44505178f6ec539a237640b7ceab573689a3cb86f600114885f32400000063c68fffffffffff,
        0x35c748c2f8a21d6af848e30c1b78229a46644922460e73f6faf06c327b438084815848140000010a11800000000002,
        0xd71d230be288756a6446249c205dced645709767bd81c863eb7f8d8e4f15003f5f407b84000000a64af00000000002,
        0x17872fd54cc6ecd6d73a5085f0d2013b6de7eb4a0d6711d3b14f5e9c2c81f001429f19baa0000007467a80000000001,
    ],
    'y_map_denominator': [
        0x1ae3a4617c510eac63b05c06ca1493b1a22d9f300f5138f1ef3622fba094800170b5d44300000008508bffffffffff9,
        0x746c34465cfb9314934039de742f800d471ce75b14a710033d991d96c00000063c6900000000000c,
        0x3a361a232e7dc98a49a01cef3a17c006a38e73ad8a5388019ecc8ecb600000031e3480000000000c,
        0x1,
    ],
}
ISO_G2_377 = {
    'x_map_numerator': [
        (0x113b0abb7ba48832ffb7aaaa7ce085078312d4bf0bf8882e8f4a0a6e24d91b535b6c81277ad9369cacc733de5cf86d9, 0x11e62d211119d8108bbf13b3b4b79a1aabbe2d6004858109139667b300e5097370015d42782ca1bf7652dba1d4cac3c),
        (0x51a19546efd3c582ec16ee049bafb8ccbdd87d98f753e654e0b93ae62a627a6f610b30f76016baa8d18dc4677dc401, 0xddc3aac50aa5af86f8c1d31db787f4b6ac0262a8ea40c07d61389c2a70b06c51fb59520394e05c55c72e363b9607a1),
        (0x93198927f09c55a596756ab909a06ab3c0127be6538fb275f2b7b5bfaa1ab85b12a45ef345d628d5c6e69effd7e76a, 0x2c02fb38b1440c7b2d4fae061763cd734c40b1eddf1ca9552554d2859906f8d6290038a485a655f8178f99b1fe43e1),
        (0x19091208a40d61bd9a55359da28b532617da69a58addac35288930ccd5083166d791cc7dd3c6533e01f786000c532f7, 0xcf913d369130273a81f982f469bc8fd98a8983af247d28845d76729468a777836e1d3cdf1e1adea6b08566db5b514f),
        (0x181a36b975099a83b4773c6e62d93365d5fd3787c2b62d0a315245f6226ab13cd462f731b73a436a598b34dc0ec58d0, 0xdeebd58f0234fa272439c69d9f0ed559b955d416256645c2ab1857d988b49109ff460206e2b978d877fc9274fe4840),
        (0x10cd4f85b581fa9bbd614f001a2e64839a4635373187b57373f17f77e11ea30ce505e6ebab860ee2aa46c9e6b327add, 0xc1f11111a68f3346dfeb807985c61491498efd3439c5c7a0b77e9d819a48be950e43c9f30cd21e5e439815a2ab6a9a),
        (0x1813ccf2b39896b88561d57592c5e7d7594146f9eb341852cdbc192e88792058059bd79b248c5b8c415d6149d51130a, 0xeb958c5ed40e2b75a170536e42368207df82fcc26518f6f83f40cea65efdd81dcc248290c660107e0a2d650a38d526),
        (0xa143ff2d94ba2d2322d63cb3769874b17c00fe76fff4b53fb5fa4744da3114899adaca240bde7d88357aa80b144bb1, 0xa25054cd91b2b06cdad439cdf86265929d35738f09e759a56164861f45586602c630ef182e9262f0413374b154dd20),
        (0x1f0a897c94b01589c9eb5cdd999c580c284f39c6fa6f2ad0c569c3b219cc245484ed7310b858f980b2917508d94f59, 0x5c56eb37beca858c993f39fbf09b73efbd98934b5b1d8de0c21fc75d20075e6d7720601832565b1823339bffc17a6d),
        (0x13a21ac110c90240e49de23070e86bcb64b8c500d8f9d792095a0a7f9133f4d8d94c518f9eb1359c8c82926e41d004c, 0x18471a982b5d8d7756ff4971fbba3945be37cea5cda74e17674b76cbf527f8ae51a27236a95d815a4f36a2461df5b67),
        (0x380e386dce2ad72755e1d21461a3d33ce275b036c2a11a755df7e948161f3318531311b8dfaad26a2b6af699e42f07, 0xc86f279fd500d0594160f87a462ff89f4b0db7b7fe6bc809871f11183f13235d343e0a8bae13c9f5791a2821ce8bf),
        (0xd73c34c8f904e327cd1fc22e8a90e04bed13e46eb98e3d47d18cde142b9e0f3a03eaac69214acac03042aa9b9b6495, 0x76ea3cf6b7185d7d6e3e73ac03a21b645e5aaee7a99dccecc485620fdf64e7486c7b1e4f8b6e069240b7a1e76b0609),
        (0xca983f9f6ea728c5b4bb9a6dc72d24ecab7833e1a8242bf1a84140deb996176a8f7c7d6fe34fdb4660afd6dfa5fd74, 0x7e4badbdba86487f1b87daccf8d14f62bcb01bca058d8e318ad40ae8343a47d40f6b18af1e0bf9860eeb32db4f02aa),
        (0x1552beaa2371b711181b528b4ea3e801e3a71c2bc0bde70a2babef6d5702ff12af4f5f2823599093d5485b94c873d36, 0x11783b91dc5ce3d03283278116bb901408dc61ef8bad40991144de2f3509787d83b566820fd315b558ccd76c9debd5d),
        (0x175374ccff26ce81965dce12856efd5cb587251e70a588e2e4633110d65bf17f2991df664e727ebc65b42d74a938e4b, 0xe75b2e26120b6428e51285251602a89ca9f865d444853ac3527b940d7b218df89806e725ec52e75b92dfcf63616483),
        (0xecfa3729a48226a477e72d4067aa372a29fa8943324495f2f39f754bd1d114fc2d9c62453fde06e3272bf09faea06f, 0xe95c673c49bda6dacee18f07327cee3902582326fbe658d3e8cb15b40327b8b7c1b04e0160071f1e8c617361754705),
        (0x155dd556a15b55b766cc98f3455788f3ca450ac5c613b2e1464b53f0e5412a626e423cf9dd5127edaa6deeaa5638f93, 0x15ac434170f220d28273b44c48eca01f2cfaae20e2342429ca6f3668e0825821a3d7f1227db23b1a7a36e7f8abf89e),
        (0xe785dde291472723e95d737c7bc0bb72a8125cfbd91b122beedd3f45dedefc1480e9350bbfb6a5ca2fb9ec905573fa, 0xe01e2c8ab4ddf439c8d4028ccc68b13de8099e3aa7d5120867366605682a4db4ec308cf07e043cf7256e35c23ecbc7),
        (0x4e2c05f403fa31d03e91053fb52a3fc12ae58977575f53cd8a52b53d1067cc61de65daada7c7c1bf5bdb07f3719b14, 0x18de34a92f81eba3a57d55a9d4bd5cf7da7b1794a0f9ece37abd537ddcdb29edbb01aa88baef416408d34a227874c33),
        (0xe4a28f5d9cdcb181099868140cf3064cd573f892aceb79e3df63546686df19a3164efedc851333bbe232be84e3e627, 0xd31f8027ef5f6b916364d998dbc4640196191cf0ca44e2c2c4825bf4babd706351d21f1f6177ee4c3f5d16928d059b),
        (0x602985c2bf7472638e59af721dc3e635d08ede15ad23084d54441a493d515ab9d727832a06110b8a5e4cdf978980d1, 0x159cb19fac8df89c704efce7423d8965e1477606471d21f77988cd744d0ea0938a85eb4a21d41a34c97d64a409f7314),
        (0x12f6020b2f6dc691f96e6a7c5e42a221a861c1b27223e30adbb75022ff42f318e8d96e0a964dfcb9dd0d20fd3a7c247, 0x1766ffa6c449787005d03e90251c271190a3c8e6db8383ce2925b91c87ae29c989d503705ed7566fe5c7bfefb6902c6),
        (0x471dda72677bf4df7027fff15bb88083362b56b41dbbeb3e3f9afed6c7fd9b8e03a7b66f7dde784cdb94ef12714ed1, 0xb95429ba2726547f58f812d8516a9c7545fb43d2080d1b154e4e8aaa689a378141fd28ad946cf12fef100e180c9762),
        (0x1ac99df3bf98db5235d2892b0f00a86db204cc8f367535d37ff878fd945bcd6f4991d08e3d7598788e2f860c950d110, 0x0),
    ],
    'x_map_denominator': [
        (0x146e50faa64a7651c3b0b61836501a66805927dcb051b32662d0d261c3b5458776918917726e7ab20050fb3f1e9d32c, 0xb1ea777f7008d8bcafa4799bac2e33475d6b287b6c831af5c06bb778507412d8aa8d347a14ea074b7983518d668616),
        (0x79f0dba8c34b89c8d1fd2363421e1f97f7f12579ab42f520b86c9e7b44e822fadf62f6e98bfebed3065ef7e6d873e2, 0x40dd9ff7e21f5f6802ef1e47c240880f84fbe0232f659145f22f9c842736890572e9a0018ff427005b45140ad2597d),
        (0xde82c1e45e55039d5d8ae4684e278f230e94285b4bc97eae01f84acf258e9be8888a96dd0fdccde825922ec5517ec5, 0x101b161db02dadd38c1b219d253f01728d2b3ba65e3dc05ebf102ff9fab2f2ef1cc95047570148228b4915820b0301d),
        (0x19c6b7b7a90b244a9cc8e9cf77c1fc40ffeae17efe57efaad45c6b85105effe955b8aec25cd5a33b5fe1b403099cc87, 0x1658235a28d3dcd62a783eb6e135a65f19ee1ded96bf717f26fb9e81763b6d1d0d32ef686998776504a5c6426ba2ddc),
        (0x1374e714d24649d3de48ea7e809ed20ba8de79a7a95b59e26babe22856e57c5f9e6667da8107e27b1215afe2846471, 0x9fa434f0a714ff9b2bb5ea51856efce45659377666fe4377774d04ca63a1ae957c5cc11376defad113c94ae6ce4652),
        (0x11796b770f7504fb0a25336ae91aca083bb600d5523a27885e44f3bedff57966411346d44cce4bbaf50770a210445b7, 0xa5dc732bb3f95325df484711467e89dc69a7986d2439a692fb9667c22512d87f968d452c1a7a4af94629d6fbfab126),
        (0x36fc8fd543e00229e3e56ca9655db01cb161ad493c35d5225acea1924f2673890b0981feb9170a2b73e1ed5852276a, 0x11e47853a548367d9473b4251c2641a1a05ded1721fb74dfd4455bb41894cd35ffa77ac1a1dda4171e8e3c598cc0cf),
        (0xec3aecb4916b2621d73c22adf37fd2bd067cfcd09f38cfa7060c1dc08573f6e6da62ae459d00c719b153b23eb30380, 0x33b7e5c5174d637291e17246bd01864eaf2b12d27ab74b84e029ed82c9cf3551faa44b79bdbb079a9f57f598e8c35),
        (0x14d8b5c3fe739ff9bca51db2433814bd39a0ba8f082801125801599b81682fe51896aeed82936cfc3d7850d2f9622a3, 0x7adf53096d8b637caa65a6703d654842a9b7d4d82a1ebd6ae4eb4cf7df07912638d359dbfe6f8443fcae492cb150c5),
        (0x16e8eda7dfd1927fe1dc22dacaa78237dfa0714315f535e804649326acfe5c67a86dcbee4d78a5d662ff122b8580245, 0x40de374242af4c470b0952cc13dae780d77d43729e9598ba3173ac586624ebe305c8c9e6e5e7245f98a970af1ee60d),
        (0x16c94723b3eacaa13fef87169f4eca0959eecf2184d6a7468da9d8f32acb6a36c5254bf31d733f5b1c053dd88e54282, 0x19c508401f6e0cdcf9e2b694c12550eba4247c85c52b8aba5991f9aeecbefee61355271663b842b0b23c0de66bcb8f1),
        (0xf3ffd87f27eee739719fa368e3d9bebdb8f06a192b5ae980b629ad78421034b2f919d658fbcd1490fc7692e1e916ce, 0x1468f37ed6477c421170d67235b0370aa3388db7e4c0cb3dbcf1fef55b2c7cd6989451199b411d7aaf8a5b24436f6e3),
        (0x1035e4ec93dc6bc358f961e7dc4c82087605cbe2bfdbe713fa5e7b21d75c1ad45088bdbc6daaa2e12d1f0bcfb4b84f7, 0x11e842bd544d0bbee76808f0a1ba264be31aedda57ceb64330b587d5a89d03598cdb8d2b528fe56a02dbfd48e8aaa83),
        (0xe57bf7b799080766c07fa8b997f65da74043a005d785b60215c0875d8d80a2a55de8c81dc081ee75cafdcb6d9f5bab, 0x4f2c024aca0ee3f8be88ed1450ac2448d3bd8b540d7cb9b5d93d68eedc20119213d260c02c7dbaa180aa008407b0dc),
        (0xe0b435cad88cfd17508b5b3da274b76521f715b9129c3141f70a3c7dd22e14c3fe58a5db7c168f47c673d91a05c02f, 0x16ba8b632d08a5abe396f990cfc790f6d29725220c89e7dacb3be59699757c6245bc0793bfeb5b2f917508cdd949a79),
        (0x17c5e37674a25c3385908a02be0a23c1623eb710deb01632301277cb968ae2bccd3e5b38e144e424a9da459c4b8600a, 0x503556d7e47b59d5888f787cb7cec46d917d02f8118e01a63ffc3b01398260d7c722dc26c7cd03d7c05e1a996e5471),
        (0x890e4e58ded34996cf252dc184d7aec1c1866ad2da0b50ffc208a1ef31dd9e277b3f5e2fd1f3cf9422b81c526bbd0d, 0x108938787e3377815ba98065f7c57b955fb7bc2247a21fd516fcad09652e92819c4bd34cf9be483e261639e540ce577),
        (0x665b1acc1e271d15bf9416f014ae1ddc76838a60230be0cd17cc7505d6b5f7cb01037545fd2c3b9997b0745ad8ad9c, 0x1ae0fc9e185ac85323228f01780e30ba86767c59cc90d2d05ddbba8d6cf35bbd737b7fcd09b3850af513ebb6fc3ced9),
        (0x16db2dd779c2cc1699abf727df65339443007994b70c43a8d9767e265dfe45809093cc631ba5b79f1280236ac93fddf, 0x43671e62ee377b90bbd80c91a3dc1eb53ed37ea8ae6ccc0154e2f1cf498198acc92b2ce3c07e292b2b5f038c6c04c9),
        (0x93b2b87c160c52f6b056e4c085930add9aeb706709ee013eb54ca60bc820b0da42fbca8e9c9a579585bdb8af77acbe, 0xcb5381cf50932ff1dd7fed460732ae9311b24ab543d98304b80963cf706598ef147c2b047d6c2e49357f5704e568ba),
        (0x731b19b58014b17a0be1915dfee088ceb8ca7964deed74d985adfbe0e9aa99cac1453ae4210abf949afc9c7425f2b6, 0x3f906b21602c1254dc293fbddc3974f24bef13d0291760083c7a125c8ad5c49ed9ba755743e9344387d1e712d7ede2),
        (0xbee29453de653858b3b37cd3b85e7941177c94de27ab781cb8ea619a1b9668a0b0ddd01318b6699bc582051c23dd8a, 0x1793e129728346d60828550ad395de628b4f4ab2952bd0e95003c382bebd49daa486d981fb51dee163ded1fb204d09f),
        (0x1, 0x0),
    ],
    'y_map_numerator': [
        (0x19474819a519191689e0816c7f84b2a58a6a5aaf5adfd7fb0204d8623f67c19e9a64d522ce4c963e32de8edfd367284, 0x100e238102de877617418a44564d9379372b6f69c721b205c60af2e298bfa546a7c7a39883e433f947601b24266a306),
        (0xb58b352e8f9bc6162e40b4ab27f066cb71ed844e9b5e376cdef8e8be14e38d2f13392f19da19ca1faa758bbb083dc6, 0x3293cacae9e6251abad8ac4d8263754f1301062d54ff721d183d201f9133db07341cd48c721d8b9ec40e41d4bd0db0),
        (0xdfec4d8ecb1cb0adbe13f68ccb2e070bcbf5ee3ee8328cb6613a63a543c252ef4ecb525fbf65ca12f33b425da04d5, 0x177fa15abb4e47ced85ae0765a6aef971131743de887073556fe92f142b83a8355edc8544530ed7296a3e21c4f9828a),
        (0x17bbcf8bf3802b3f868ec94dcbb32a8b0cfd5f62daa2079cf8370b487cf440c664863e710ffeafc40cf374a58263139, 0x16f6e49903922180e44d4bc45aeb65f093fe4fad10cf29583c3664cfbd76b9ca5b9a7ef2337a62cb2e45623cee7ced3),
        (0xc1fa03051d6150ed02ce658113c5b9de9232db80782740741c13e95afb61ddc78d32e0af5fa67e2df4203ea7c7f720, 0x1a20dfca20c821fa263e1b04009e6e0f5a373e665afe7f603f0bb9703ce6864cc9ce09aa1e2d694a16082973591eed7),
        (0xed3c8528803a2e8ea1d51fbc40888c93aacdbabaf485d5a8a037472849450ed254f2bf0876516c81b466d03adc0b37, 0xe0b3c359ae53e4901f777b107add779bd384d8da8a46c02f044cbeb099743b6888cc191d97bd035de9136783ac7866),
        (0x108e5399fb0e462641e346430020b47260782a557c8476b06aff3fa95b6251bfbd40dec8c213b3355c50a24b96d95d5, 0x1aa7ad61ba7c96aaf8b72db59b48309bd72b50ec5781988ba9a55a43b4e4a595e36aceec3a51a1804a788848e9f96cb),
        (0xb16e02b02354b93cbf74b3551a94aabd0acfea5d6f20c56eb2f46433003d2dc4225912600eda79dc7e3adf0702e763, 0xec85210b0e638ec662fc76335f470cbe21a165a66aad036058932f6d52e77f1b6e3269cce0432e1404b0810c053c2c),
        (0xc0b22a4dda3741b4fcd5b6c2abb9d2e8481ebd442e00d81865d70c8717d4c6c78a41e6f85c97b10fd010d8a966cbaa, 0x1396ca7d90b82b12adcfcc5d81a850203097d56d9ef35381dc666cbaf594b4e033e6a525460e4ff6ba10bbf1afd94ce),
        (0x14c78f774a2896fa64a052004df6fb736bf806e662e9d7097f589b0df03fee5aee9609407005296ea99b879fa0ab8ac, 0xcd6467d031974a892ff5ecff9f2f8d46a53e674500111351806a15432a6cf8744725b9c101161d59c792807b253a3e),
        (0x1526589e372650ab85ccf35382db0e7cf5d02f0de09e848caa73396338a01b9f6064695efe06eabef61098ea1c0c638, 0x68acae9cd1355b5c9781656519838b804fbeeb960df4bff77dd2477ef674d7240676b62cb03a51326f8f47f14377e),
        (0x167a5b9940feddfc5ea3bae9c03a52e10fdb3b7055e547d27fa804baab5c74796d2f1cf56675c664229ecd622f32ed3, 0x44f0cdf3744beae8718ae72373f6a01838b210bf23bbc13d3522d5595f45980057324c394fdd5f4a588716b2c0cf2e),
        (0x1511bd492587501195e9a7df7360c8e8fe72d53b57cec62eed296b202b156724087121691d7e7ac6d80656b40604602, 0x51219c71bb96909a005e363c5ec60f36c77e407fcc05e801c3962f83566d18ae9ff4a658d0dd08e1d90de6c758bbe3),
        (0x48208860fc71ea0cb4a266e00c3ba02f8c272902831fc7d0a26d4734eb1fde8d496dec19ef8b076fde5c77b534f4ff, 0x6707d246dda7a0a59b2b054307653dca9144172aa6281893bc9f681368f71325baca1eba0229dc19f9a7853088ca8c),
        (0x32a1895b110a91f8fb9e1bd01a312d28281131018a0ad9470c3c3ea1952f63ce90112b8d5ea7bc933d4f1cb426abe, 0x6fced059c7cb1819994a13bcb3d805cb1170eb16e35561c90c1454c4af849c5eff11b66554ee507fec5c0ebc4eebf0),
        (0x182a668115cbca00c180b580798d261e58b4d2c140ccb68342ee5a859b51af3076e871060c103c2a0b4ca8a80a43a08, 0x458656746821dc18aacaf7533ef33077889590c4eb36a545e120d40c812dad8bf3c8b3425a427a0f58e49460a4f7f0),
        (0x1371823e71e71d670cd8509978788f70e4aa0ad9e88dd3983c8b52a688c11865b8d1a183a82c866cebeaa40f4f87295, 0x3fafdb6deb055c9eaa8a59bb2fafee94632d4c538c8837cca7743fec86a8f9ce24bdbf3e34595d1bb9e43571cf2370),
        (0xda0900c121f7a9a289faa9bd55ceaffe9d93a38a2b0890875289abe4a4491757eb96eebf7c2babb6169994d7eb414, 0xfaa7103de621a04fad6afeb3e1334e1fe69a19029bf77e32833684a5e6c9f1a9fd6cbd6efdb6496b95fa4b20521f9),
        (0xdf001ab5b668caa34f373dea333476adfb1243e35453af80a6e66dabd825256f185763cb22112686723a50c47acaba, 0xffdc67df2a8983f611da939f6b81abc4db37ecbbdb4409abf9e1eb6f763aaa51fce86f4ea92e4500079313a249d7a3),
        (0x2967da20443829494af8becbaac23650aab235202a7a20e64e52e0bfa17d045a066167931e3dbd41d55eb956d2ed10, 0xc7f02fdee5f78a0a03e3abe964cb50d03313df2c8fe42b99d16f3af8a2a0bcc1a88449924ebe0acd21bd3ce63128fe),
        (0x13cac271335756e85815b2d299b18f25f34c16d33b8ff67e923b74f5c468196cc31ab24a3a7ee56ab9e4e10676fc0eb, 0x18a1b7092e497c2b1ce9e73f447618dcb50b43e20f6115931833d0d1e79da6f3d728e4a1b651c0ff536cf2549919282),
        (0xd4ec1a90744458ece499140238ae77c1de76f242a8a05f1482eb221783eead306e1ee6c15da37f4363df82b6cbfd56, 0x7eee2877ada79fb65b13e1af4d49a98ac24dbe7965a7dd9d4150274a31032ceb4a3a0aff0369ce7b15235d91cbbc25),
        (0x2b277ffeee377436109a9f871027362a333ae2d49c65c7452be93c50a2220673b21006879b1fa9b10c5c5f0d933f38, 0x9b2ffda579da5430137b22b26fdaa13f52ff11c13f4f88fac0bfa0c30b5c1bb190d8728a60153ec7986dcd7dc5640b),
        (0x949aedd81f20923b0b0e5f5cbfc2c0cf7ba155ed488e756404f6adf9ad0c85e8bbe102a83693e805aff42b7f21617d, 0x176910539df9c32d55b92b8f843c668db490d8905e108f18d1b136d45989a2d2ef4cfae817975c2729cc92032d905eb),
        (0xdd974b42d37d78da2e8761e99596fd113add085fc115b9ca57a94c218b278addb80c8430bab38b8d53738fbb33b75c, 0x163fb82f31df72b309c3422ad404ce953f5fb5292fe68cb61b73100bc262a987e46299e183fc582cca8bc848dd7c621),
        (0x15d0fae7eabe20ca577fc60964b17e021e699c1f8ad28ecae4f3766dfcc924a5a89dfc48fa0945e9e650c45980affc3, 0x16d1223b7d1b6311f2462306650b490d11b3772de34b66fd06810fd3dc56e90d15382767477c4952d25d0da2656d6e1),
        (0xb34a5e0ece8efa676afb297e8a81b8c5af019a878bee197bc4ecfabfbdaa46da1ed1a51cf3b0f1ed90691dcfd2d594, 0x164c4047b6cc6e62f7c7a00c215157206c7b50adfc52435469ca2846701fd8857ca14c5ce17fde980afdf2b8ea58d2d),
        (0x167fdf7ff361330674041cc850f227daa736a1b450928a621273de03cb104998d76a529c84a9cd93a91ccde3cb4623d, 0x18a6f2eb4840007bb2157cd6809ac05f522ae2e4047f77f4de06732445c7f03290de120acdbfe3d4590edf09ac3d0c),
        (0xf8649870cd6866641205263c10df90d9ba3c8b56d8ceb178c4897ead46bc3be88ef7e0e31952dd1396ac6f7905b8c7, 0x9a05a5b1cba4d191bc5098efa547c070297e57748416d8386d72875a5cc5127d3a9109b88bb74bd7552b4eb3106175),
        (0x1378329c9fadb2e63f34a6f55ab5335ff1b5d913c2d7edbbba48295caa230f00150d65d25dd44880cb562ca912495c9, 0xe5f0b2d55f8713e807c8fb1f96f13e0b5caa3de8607f04bd93a7260e3d8810a48860a9626c7b4a424bdaad21741308),
        (0x11386a65a011fb28d612fbc7d0f76b2dec1330512b504f541d09517a0cc00f0f49b6fc1fa52a8725965385dbae1f4b8, 0x170632bca9a590287a0ffac955344cc8f15e59118f03adbf86e07bb82f5bb76cfb7fbf1e42a1eb384ff9c11f21b910c),
        (0xded86746533417ce10e14535b4811d2246eae38429763e4427ffa9dd12120df30c8c36497d089a06066626724c6cac, 0x40ad9ca1fa683544a978c718fae74751b37a5dac2b57dcac813479f9ebb387e9ac1eafb90b12483b5282391738f286),
        (0xdfda607fa565d6becc5842deda97367bbf14db84a0cae4783dfb89d2ea2ccedefca2ec5883577294bba68a29815d6, 0x137601d38808323444ab0018632b9e567be332256b624b8ce929756c42eab72fca278590b52071b38b711be22f5b0d5),
        (0x13dec721e4606cc9691488c3d003366a1462ba6a713277de0503f1131d1d61fab5c79cba5bb7332c6abc80435464be0, 0x0),
    ],
    'y_map_denominator': [
        (0x126e7ae82b984bc44d0e37b08e50643a99f06396f1ae9e20117c4bd86b9b1939fd92c3d95ebd307fce9080a95674e4f, 0x18561a650deca0ad7df837e9ffaa27f0b8e85ff347362f1259d3b1e529e892327aa7c6ccf4a3ad6e365226b8d875fe1),
        (0x1a9963059b91cc5aab175a23fb536129d851da9e2f8c5bb7165e05937bdca1db1508e98843f1f62c047ce3d6ec8fc60, 0x1fb73b0a8e121906f51d20eec7cb8491cb61bbb3b3ecaded3df7283d9128fc3635307f3c3ca133af720d9775729e91),
        (0x8b9ff20c9eba7b3dc948e79ce661704cf236ce6bd8361d146491031d3fc9e58b338a67ddc8548f4a36460fb5dceb40, 0x3c27d81172a310833e5ab3bf81225b01c4068b13026ca1deeebad80a558665100bad779466ea0bc4ccf4c4ba3d9c7d),
        (0x1642ab99157e12e44ad3e54b1fa7a4ec2d80b545653fa336b5aa5deb0452f3d47824cdc51de8d83775d658426e24e3e, 0x7d42c28d3d9fae9c3286c2dcb8826e91d7b36fc45468e8f64b8a029c91863cebd4add2412ee5f3bd090bcccda03ab6),
        (0xb233cdfc79172767df7df3731177932ce335fcff5e0b1579c01cf6d34d3747bebe1bfe3b111ef9176fbbba581e459e, 0xbe45fabc97a7c23a215db4b2aae647fa5749ad332d9a66eccdcd7195a412def4d28ecb256f45d5879cb6b4e6e1d396),
        (0x4684f66af9512c51edcd89002de77e666b71ff7151c341319a44095d8113addf41f718b54842a7c29432ea9e2b8b88, 0x88b603e95e15fff2d8bd1f77ceaf19ee06b7a9301faf29d983a8962bf7969a6b3ddbdfea1ee16f30cfb81cf7e21715),
        (0x354c69013ae211b621a899ca7a65f4bcbea4d39ea633002758cb777ba71f570995d52adceb2fc931d92a12398eb12c, 0x175ca20c6e2e1b0b8305dc90cced8b1e4c3f4493d341e46e39b6e33741b604f1ae9f8b2be59f4a9a52e948c802a108c),
        (0x58a2ae5eeb2f349aa139ef3ddffd1df269c2cf99e23d6f64ed7ee9bd2cbfde0027449827b1e2b116da86ec051e0f07, 0x47776d799a1f49c7bfa7feebaf8012282bb0dbc4b1ce41448474e41e53f64a098c71c79ecf21bece5867750a030982),
        (0x1a0a1098c733a0ba9c9ed018ecb794dfb3b84b048ad03850b46e6cfd1e1018fd25ecd9924e4cc4f61e490d92fe1ed89, 0xdb1cc6b3b535c13494ba5c4ce330f401298118fb2c774b057daf91e1919b84ea0982828f8a07fa58cb3ea8f0201cfa),
        (0x1a19656718399a35e838587e3ca3aad4337c715ec6baf72f3c7e3fca08fce3651140c73a45031117e9e0ab0f7496b3c, 0x11d225e689b1c5533a4da5615ccfd27032d2a33de261bc8c83e1d938637efe7b0612df05f42d2d858376b499c652d75),
        (0x1a97aec63b6f352e2a2494186b69f0276247a857d82f7879e7d6c01e4a38f6e9d97e347e87ce507a5b94f2b3773eac6, 0x8256cc2663dc6938ae7605931d1a8f441ef85d2cef47445416cb593d2860d2eefcfd9a3c35d76d25d17109a764ebce),
        (0x9deeddd201ebe394bc84236d884b755378a169e31bb81e389ed375576782cb5fd30a4cbbcecabdacb808eab7c6d4fe, 0x174a2760a9f8253d0539dec3d626f269841b51a989ce5205fcc09366eebf6535bab520fc56d623cd04fcde78d685a0b),
        (0x1e3c14cdeaa4ed3e266a36616cd141dcb32072e63e4b9c1b19eefc2d6b490397977352e865b5016f148f74d1234df6, 0x5d1a7ce417ff6c955a2d06c4c840b541f386fe4a4370228afae2be534e2a5417fade1ead66031d64458270725699d6),
        (0xb44bcb83f10d65248dcf486aa2bdfbedc610b3f42aaea5a4581cacaad83d83a5bc9af704bbfd377d916268ed5be0ca, 0x154a6f2aebf4c09b1e69a0a4d435958eab0b85a6f405246a1c6af4a4432e13ba0ae3e631b4cbb9958962a2bc05dadce),
        (0x43ec129619c24c903d1e8ced9e08af5e09deaaad2f85f5ff1a65a070055bda662d6b0ec13b2a12dce07dca1ca0d34e, 0xc696b6c3b4b65ba99f95b0419f35d9f5a13e81f259173b4babc0bf290a0e2d9979511b5a6e1122aa7a572eb04c937b),
        (0x5f8d9df1cd3ea471f926003dae6e4cbe4eac8676d97693f76b082468922496ab47cf0a6fdbab2717328446ddecdc17, 0x588223c67657eb350a8aba1f5ac04ccee4c02ab4a5c7d038c8a3eb8c8ebc0233950f6c7f12cdbb6fa6a423e97cd661),
        (0xe23936ef578d86d6e629e2146599905c9a3cfc4d158bb35f4513ade1031830de7ca355bfb3ec74c487f7e91dbaeb22, 0x1168faccfe32c916ceece34bd697bfa7aad4048bf1ef00409f0c7ad20564f46eac4e7710083011e85e8543b1b8b3c3e),
        (0xce947ebe5063aafb2a3e9796bf3677237ecd980026889351d1120fa73b24a1a04e971deab8ad4c7f189e9559b0d1b1, 0x156b554c56db14b68a4ed5367a442fac6d95d2714fc59e9eaa235dba01a804277302625ce66f99e4eead7b7c7137a90),
        (0xeb0854aaaa2035ec173a3419093ef828c51df43b492dfad54fa62fcdcf40621c21d040f678a3eab5831e12e4a0d02f, 0x380b52ae6bdef0a4cfeab3cbef0efd4017286319f2e1dd8022fd896cb0cb8be986c4abb1ec2bd6aa90c45b1a61b6aa),
        (0x19cee627a52ee5d83bfba584b81e8da3e9fee36a4785cc5e277a0635ad178c03863d708258214e80851cec3bab077b0, 0x19a62cec87d6fa62a59d35af20772f84611a11d62e573e008cf6cc4e6e473a93a89b0b2b4579827b835109ffae07696),
        (0x193224b2c9149c504131017f21f51adb859b41abcf51ad61eca54273f7962d47bbe4c33a96e0938b31d4d475e20c472, 0x17c9844cbfaebc9866e792216a887a4efe3c85a55891e1f8e0f0c5bcd1276e607087e9a67b9ca05b30577a70e0b9cd3),
        (0x1a381bff3a99144474ed68d432a55cc7a87a77ec8ef9ec7dc8207bebe95d55bda2ec40d34992be5e68691717ad25e87, 0x1998a69751dae99d28fafd96b81cc341482051957408078e8ea74617fba8242075a8f8b079f1e18a274a9defcf12cf9),
        (0x1436817e660a5107b3d259cb3f2af5d373b951ad6a54ad6831ff9d7053cd857ae5abcdf0e44bb1a45dc4dc43be82a24, 0x7d2fe1f55c31673b19f9fc000ffa74819d7001a3f1bfcd87bad06d6642b6ebd2d69836d88e9e43fa6af8225a380ed6),
        (0x321b8a5f187405be1d90830e71a287eadc2722bc45bb9f5e84a921331835127361f4544d86b4ace8ceed8886063f02, 0x58cd6cd7c128e53ec5f4b55e8cb0356e36b4f4673890bd57600018e658100e9ebe25311b6c0a9b21b95a6414a88ad1),
        (0xa88afc381c5826291bd27ee2a6d88bbf10068154b09f1df0b3cbe9478e2f2f835133d5486b0797d9ade242e0d442c7, 0xf76768c2ed3f4e85913f870de4ef972299114025ab5bd97a70dff551d3fdb6e780876e8d5979631e170590f104b3c6),
        (0x6bca067bf3c3fda8fe8060531d6f5550fef83c2769c7686682abf9585ca3fc04d64a75061c9965a8782864126167f9, 0xa0e802a11d90c37cd105a8c597cb844efb81706dedf9a6a19254dc7db8b0bec5127ab383370ddf3ea8426be5d2d9d),
        (0x46d4e78de408979012bcc8d12b78d6d85d8beca1b7700c410fa6a3b78de2b181a3b2d464d3d1745f5a4f722bcf667c, 0xdcb51648143fc79a24093a797cda524c95512a51d521ec38321e624b1cbcdb9dd278c71eb0fa345eb67639e9563dd8),
        (0x1620bcb2404787ee39cae59ba2c85a2062aed25694677b198fed619d6558b859da3aaad5d38e773ca645cd710379803, 0x10620b57ed7f896194775ed566c2e01276e4f7bcdf233a23ad1d3e9b77c3fa0cdf84c564c1021f5e584458ab26bd8b8),
        (0x6dabe74a1d15321e50aabfd662991b784c84a9b72e3340eee8efe520e68624376814038f2d1d683df0cc4f81c37a3, 0x130be04e20fed0aabac1be1a13614e262414e7492e8701816e89b9982a435e2cf80b11474358c9bf758393f8fe05022),
        (0x83889427d535bd6411a28c2a0ac1d40396ee0e686f0052f0bf59abb62bd3004f1ff3a76bf93b70926638b5c05f0a3c, 0x131b916656d906aeda904a98d7664ed693a9a793a051a824c4ed8c815835eed2bcf1d686414c859af676f850e3dfd71),
        (0x160c9ea53e9e85745773c4faccea8a4bc12d558b01068c2f3d88ca4d43b6f5e338a0ab7230fb044757ec2666f769dbb, 0xb40e44b0581a642829ebdc74a3579c83018737cb432db5f3d692411082f2139753f6122e53566737d4ef53ac06ad1),
        (0x186657fc77b2f47a24d4ce9ff9978c8b856ebb1d23e75468ac95d73168cdd6f7ae9ed767ad52bc9a3ea835a37c34aa3, 0xa216aa737f6a614825bc46fbbcd767235927731a2c14c71ac6e2a38da8479785028a30559d92f544c2cf5d24b542fd),
        (0x11e53de7dcd97d4850d8d3b3d948db5e1a33adf4d3b81342b155f926729619cf1094cb81ca5119e69a84307aa35cc4f, 0x15ebff8d6d9c62eada64518cd85683baffe02073d8191ce5006a93c64dd1aec73e6f5c2178face4ded883af8b0738ee),
        (0x1, 0x0),
    ],
}


class Suite:
    def __init__(self, name, F, iso_A, iso_B, Z, iso, E_A, E_B, h_eff, r, L, k=128, hash_name="sha256"):
        self.name, self.F, self.Z, self.iso = name, F, F.el(Z), iso
        self.Eiso = SWCurve(F, iso_A, iso_B)
        self.E = SWCurve(F, E_A, E_B)
        self.h_eff, self.r, self.k, self.hash_name = h_eff, r, k, hash_name
        self.L = L
        assert L_of(F.p, k) == L

    def hash_to_field(self, msg, count, dst):
        F = self.F
        _, ints = hash_to_field_ints(msg, count, dst, F.p, F.m, self.k, self.hash_name)
        return [F.from_coords(e) for e in ints]

    def map_to_curve_iso(self, u):
        """the point on the isogenous curve E' (6.6.2 applied to E')"""
        return map_to_curve_simple_swu(self.F, self.Eiso.A, self.Eiso.B, self.Z, u)

    def map_to_curve(self, u):
        """6.6.3: simplified SWU on E' followed by iso_map"""
        Pp, info = self.map_to_curve_iso(u)
        return iso_map(self.F, self.iso, Pp), info

    def clear_cofactor(self, P):
        return self.E.mul(self.h_eff, P)

    def hash_to_curve(self, msg, dst):
        u = self.hash_to_field(msg, 2, dst)
        Q0, _ = self.map_to_curve(u[0])
        Q1, _ = self.map_to_curve(u[1])
        R = self.E.add(Q0, Q1)
        P = self.clear_cofactor(R)
        return {"u": u, "Q0": Q0, "Q1": Q1, "P": P}


_FP381 = Fp(P381)
_FP2_381 = Fp2(P381, -1)
_FP377 = Fp(P377)
_FP2_377 = Fp2(P377, -5)

SUITES = {
    # RFC 9380 section 8.8.1
    "BLS12381G1_XMD:SHA-256_SSWU_RO_": Suite(
        "BLS12381G1_XMD:SHA-256_SSWU_RO_", _FP381,
        0x144698A3B8E9433D693A02C96D4982B0EA985383EE66A8D8E8981AEFD881AC98936F8DA0E0F97F5CF428082D584C1D,
        0x12E2908D11688030018B12E8753EEE3B2016C1F0F24F4070A0B9C14FCEF35EF55A23215A316CEAA5D1CC48E98E172BE0,
        11, ISO_G1_381, 0, 4, 0xD201000000010001, R381, 64),
    # RFC 9380 section 8.8.2:  A' = 240 I, B' = 1012 (1 + I), Z = -(2 + I)
    "BLS12381G2_XMD:SHA-256_SSWU_RO_": Suite(
        "BLS12381G2_XMD:SHA-256_SSWU_RO_", _FP2_381,
        (0, 240), (1012, 1012), (-2, -1), ISO_G2_381, (0, 0), (4, 4),
        0xBC69F08F2EE75B3584C6A0EA91B352888E2A8E9145AD7689986FF031508FFE1329C2F178731DB956D82BF015D1212B02EC0EC69D7477C1AE954CBC06689F6A359894C0ADEBBF6B4E8020005AAA95551,
        R381, 64),
    # not RFC suites: the library's BLS12-377 instantiation of the same construction
    "BLS12377G1_XMD:SHA-256_SSWU_RO_": Suite(
        "BLS12377G1_XMD:SHA-256_SSWU_RO_", _FP377,
        0x1AE3A4617C510EA34B3C4687866D1616212919CEFB9B37E860F40FDE03873FC0A0BF847BFFFFFF8B9857FFFFFFFFFF2,
        22, -11, ISO_G1_377, 0, 1, 0x8508C00000000001 - 1, R377, 64),
    "BLS12377G2_XMD:SHA-256_SSWU_RO_": Suite(
        "BLS12377G2_XMD:SHA-256_SSWU_RO_", _FP2_377,
        (0x152964189F4C623685AE0423EB10294CE6458C064F093208504005B37D04D5D336DC9D66A97093F84D62E778F8C82BE,
         0x735C455387AB435839E5A5DBC1A30510070300F4BECAC797642FE56985064E95F7D6521A1A6E71004047F835C1F957),
        (0x19E38372E0D4BF401D2FA5F2261E1E3FC95D51A3857FC23B1385D51EA9C973A89C22148A93DFF96447700BF1C3AEBAC,
         0x1579DDB5C1C595B7C08C3A3CEF5626143C25757C6B67D0A2677B22FC0C890D8B2B1A17895D047A98C49047069F725),
        (12, 1), ISO_G2_377, (0, 0),
        (0, 155198655607781456406391640216936120121836107652948796323930557600032281009004493664981332883744016074664192874906),
        # h_eff of the library's psi-based cofactor clearing (curves/bls12_377/src/curves/g2.rs, test_cofactor_clearing)
        sum(l << (64 * i) for i, l in enumerate([
            0x1E34800000000000, 0xCF664765B0000003, 0x8E8E73AD8A538800, 0x78BA279637388559, 0xB85860AAAAD29276,
            0xF7EE7C4B03103B45, 0x8F6ADE35A5C7D769, 0xA951764C46F4EDD2, 0x53648D3D9502ABFB, 0x1F60243677E306])),
        R377, 64),
}


# ----------------------------------------------------------------------------------------------
# self-test
# ----------------------------------------------------------------------------------------------
def _hex(x, n=48):
    return format(x, "0%dx" % (2 * n))


# RFC 9380 appendix K.1 (expand_message_xmd, SHA-256, DST = "QUUX-V01-CS02-with-expander-SHA256-128")
_K1 = [
    (b"", 0x20, "68a985b87eb6b46952128911f2a4412bbc302a9d759667f87f7a21d803f07235"),
    (b"abc", 0x20, "d8ccab23b5985ccea865c6c97b6e5b8350e794e603b4b97902f53a8a0d605615"),
]
# RFC 9380 appendix J.9.1 (BLS12381G1_XMD:SHA-256_SSWU_RO_), remembered coordinates
_J91 = [
    (b"", "P.x", "052926add2207b76ca4fa57a8734416c8dc95e24501772c814278700eed6d1e4e8cf62d9c09db0fac349612b759e79a1"),
    (b"", "P.y", "08ba738453bfed09cb546dbb0783dbb3a5f1f566ed67bb6be0e8c67e2e81a4cc68ee29813bb7994998f3eae0c9c6a265"),
    (b"abc", "P.x", "03567bc5ef9c690c2ab2ecdf6a96ef1c139cc0b2f284dca0a9a7943388a49a3aee664ba5379a7655d3c68900be2f6903"),
]


def selftest(verbose=True, repo="/repo"):
    import json
    import os
    fails = []
    n = 0

    def chk(ok, what):
        nonlocal n
        n += 1
        if not ok:
            fails.append(what)
            if verbose:
                print("SELFTEST FAIL:", what)

    # embedded vectors
    for msg, ln, want in _K1:
        got = expand_message_xmd(msg, b"QUUX-V01-CS02-with-expander-SHA256-128", ln, "sha256").hex()
        chk(got == want, "K.1 expand_message_xmd msg=%r" % msg)
    g1 = SUITES["BLS12381G1_XMD:SHA-256_SSWU_RO_"]
    dst = b"QUUX-V01-CS02-with-BLS12381G1_XMD:SHA-256_SSWU_RO_"
    cache = {}
    for msg, coord, want in _J91:
        if msg not in cache:
            cache[msg] = g1.hash_to_curve(msg, dst)
        P = cache[msg]["P"]
        got = _hex(P[0] if coord == "P.x" else P[1])
        chk(got == want, "J.9.1 msg=%r %s" % (msg, coord))
    # sgn0 examples
    F2 = _FP2_381
    chk(F2.sgn0((0, 1)) == 1 and F2.sgn0((0, 2)) == 0 and F2.sgn0((2, 1)) == 0 and F2.sgn0((1, 0)) == 1 and F2.sgn0((0, 0)) == 0, "sgn0 Fp2")
    for c in [(0, 0), (0, 1), (0, 2), (1, 2), (2, 1), (3, 0)]:
        chk(sgn0_generic(list(c)) == F2.sgn0(c), "sgn0 generic vs m=2")
    # sqrt sanity in all four fields
    for F in (_FP381, _FP2_381, _FP377, _FP2_377):
        for v in (2, 3, 5, 7, 11):
            a = F.el(v) if F.m == 1 else F.el((v, v + 1))
            sq = F.mul(a, a)
            r = F.sqrt(sq)
            chk(r is not None and F.mul(r, r) == sq and F.is_square(sq), "sqrt")
    # isogenies map E' to E; hash outputs have order r
    for name, S in SUITES.items():
        for uv in (0, 1, 2, 3):
            u = S.F.el(uv) if S.F.m == 1 else S.F.el((uv, uv + 1 if uv else 0))
            Pp, _ = S.map_to_curve_iso(u)
            chk(S.Eiso.on_curve(Pp), name + " SWU point on E'")
            Q = iso_map(S.F, S.iso, Pp)
            chk(Q is not None and S.E.on_curve(Q), name + " iso_map(E') on E")
            Q2 = iso_map(S.F, S.iso, S.Eiso.add(Pp, Pp))
            chk(Q2 == S.E.add(Q, Q), name + " iso_map is a homomorphism (doubling)")
            chk(S.E.mul(S.r, S.clear_cofactor(Q)) is None, name + " r * clear_cofactor(Q) = O")

    # vector files shipped with the library (data from the RFC / from the reference implementation)
    def parse_el(F, s):
        c = [int(t, 16) for t in s.split(",")]
        return F.from_coords(c)

    files = [
        ("curves/bls12_381/src/curves/tests/BLS12381G1_XMD-SHA-256_SSWU_RO_.json", "BLS12381G1_XMD:SHA-256_SSWU_RO_"),
        ("curves/bls12_381/src/curves/tests/BLS12381G2_XMD-SHA-256_SSWU_RO_.json", "BLS12381G2_XMD:SHA-256_SSWU_RO_"),
        ("test-curves/src/testdata/BLS12381G1_XMD-SHA-256_SSWU_RO_.json", "BLS12381G1_XMD:SHA-256_SSWU_RO_"),
        ("test-curves/src/testdata/BLS12381G2_XMD-SHA-256_SSWU_RO_.json", "BLS12381G2_XMD:SHA-256_SSWU_RO_"),
        ("curves/bls12_377/src/curves/tests/BLS12377G1_XMD-SHA-256_SSWU_RO_.json", "BLS12377G1_XMD:SHA-256_SSWU_RO_"),
        ("curves/bls12_377/src/curves/tests/BLS12377G2_XMD-SHA-256_SSWU_RO_.json", "BLS12377G2_XMD:SHA-256_SSWU_RO_"),
    ]
    nfiles = 0
    for rel, sname in files:
        path = os.path.join(repo, rel)
        if not os.path.exists(path):
            continue
        nfiles += 1
        d = json.load(open(path))
        S = SUITES[sname]
        chk(d["ciphersuite"] == sname and int(d["L"], 16) == S.L and int(d["k"], 16) == S.k, rel + " header")
        chk(parse_el(S.F, d["Z"]) == S.Z, rel + " Z")
        for v in d["vectors"]:
            msg = v["msg"].encode()
            r = S.hash_to_curve(msg, d["dst"].encode())
            chk(r["u"] == [parse_el(S.F, s) for s in v["u"]], "%s msg-len %d: u" % (rel, len(msg)))
            for nm in ("Q0", "Q1", "P"):
                want = (parse_el(S.F, v[nm]["x"]), parse_el(S.F, v[nm]["y"]))
                chk(r[nm] == want, "%s msg-len %d: %s" % (rel, len(msg), nm))
    xdir = os.path.join(repo, "ff/src/fields/field_hashers/expander/testdata")
    if os.path.isdir(xdir):
        for fn in sorted(os.listdir(xdir)):
            if "xmd" not in fn:
                continue
            nfiles += 1
            d = json.load(open(os.path.join(xdir, fn)))
            hn = d["hash"].lower()
            for v in d["tests"]:
                ln = int(v["len_in_bytes"], 16)
                got = expand_message_xmd(v["msg"].encode(), d["DST"].encode(), ln, hn).hex()
                chk(got == v["uniform_bytes"], "%s len %d msg-len %d" % (fn, ln, len(v["msg"])))
    if verbose:
        print("rfc9380 self-test: %d checks, %d failures, %d library vector files replayed" % (n, len(fails), nfiles))
    return not fails


if __name__ == "__main__":
    sys.exit(0 if selftest() else 1)
